"""C14 correspondence: worker failures.

 (a) fault injection into real pools: failing task index first..last and several at once,
     raise vs abrupt process exit, workers 1..8, tasks 1..32, random task durations, with and
     without results_as_completed; outcome class vs Model.Workers (any completion order is
     allowed: the set of outcomes the model admits), and a wall-clock bound for hangs;
 (b) a fault in each partition task of explode, encode and plink.convert (installed in the
     worker processes by the harness sitecustomize): the driving command must fail and leave
     no finished-looking output (metadata.json / .zmetadata).
"""
import json
import os
import shutil
import subprocess
import sys
import time

from lib.common import PY, REPO, VERIF

ENV = dict(os.environ, PYTHONPATH=f"{VERIF}/harness/fsaudit:{VERIF}/harness:{REPO}", PYTHONHASHSEED="0")
HANG_S = 150  # a true hang is for ever; the bound is generous so that a loaded machine is not mistaken for one


def model_allowed(ctx, sc):
    """outcomes the model admits over all completion orders: evaluate the model on the orders that
    put each failing task first (the first failure decides, theorem first_failure_decides)"""
    fail = sorted(set(sc["fail"]))
    if not fail:
        return {"success"}
    out = set()
    codes = {"raise": [1, 7], "exit": [2], "exit-locked": [2], "sigterm": [2], "sysexit": [3]}
    for k in sc["kinds"]:
        if k.startswith("raise:"):
            codes[k] = [3] if k.split(":")[1] in ("KeyboardInterrupt", "GeneratorExit") else ([2] if k == "raise:BrokenProcessPool" else [1, 8])
    kinds = [sc["kinds"][i % len(sc["kinds"])] for i in fail]
    for first, kind in zip(fail, kinds):
        completed = [codes[kind]] + [[0]] * (sc["tasks"] - 1)
        r = ctx.model.call(1400, completed)
        out.add({0: "success", 1: ("other:" + kind.split(":")[1]) if kind.startswith("raise:") else "ValueError", 2: "RuntimeError"}[r[0]])
    if {"exit", "exit-locked", "sigterm"} & set(kinds):
        out.add("RuntimeError")
    if "raise:StopIteration" in kinds and sc.get("as_completed"):
        out.add("RuntimeError")  # PEP 479: a StopIteration leaving the results_as_completed generator becomes RuntimeError  # a dead worker breaks the pool for every pending future
    return out


def run_batch(f, n):
    """run the scenario file in its own process; a scenario that produces no result line within
    HANG_S seconds is a hang: the process is killed and the rest of the batch is not run"""
    import select

    p = subprocess.Popen([PY, "-m", "lib.c14tasks", f], env=ENV, stdout=subprocess.PIPE, stderr=subprocess.PIPE, text=True, cwd=f"{VERIF}/harness")
    lines = []
    hung = None
    deadline = time.time() + HANG_S
    buf = ""
    while len(lines) < n:
        r, _, _ = select.select([p.stdout], [], [], max(0.0, deadline - time.time()))
        if not r:
            hung = len(lines)
            break
        chunk = os.read(p.stdout.fileno(), 65536).decode()
        if not chunk:
            break
        buf += chunk
        while "\n" in buf:
            line, buf = buf.split("\n", 1)
            if line.startswith("{"):
                lines.append(json.loads(line))
                deadline = time.time() + HANG_S
    if hung is not None:
        p.kill()
    try:
        _, err = p.communicate(timeout=10)
    except subprocess.TimeoutExpired:
        p.kill()
        err = ""
    return lines, hung, (err or "")[-300:]


def part_a(ctx):
    r = ctx.rnd
    scs = []
    for _ in range(ctx.n(60, 1500)):
        tasks = r.choice([1, 2, 3, 5, 8, 16, 32])
        workers = r.choice([1, 1, 2, 3, 4, 8])
        nfail = r.choice([0, 1, 1, 1, 2, 3])
        where = r.choice(["first", "last", "middle", "random"])
        if nfail == 0:
            fail = []
        elif where == "first":
            fail = list(range(min(nfail, tasks)))
        elif where == "last":
            fail = list(range(max(0, tasks - nfail), tasks))
        elif where == "middle":
            fail = [tasks // 2]
        else:
            fail = r.sample(range(tasks), min(nfail, tasks))
        kinds = r.choice([["raise"], ["exit"], ["raise", "exit"], ["exit-locked"], ["sigterm"], ["sysexit"], ["raise", "sysexit"], ["exit-locked", "raise"],
                          ["raise:TimeoutError"], ["raise:CancelledError"], ["raise:StopIteration"], ["raise:KeyboardInterrupt"],
                          ["raise:BrokenProcessPool"], ["raise:GeneratorExit"], ["raise:MemoryError"], ["raise:TimeoutError", "raise"]])
        scs.append(dict(tasks=tasks, workers=workers, fail=fail, kinds=kinds, as_completed=r.random() < 0.3,
                        delays=[r.choice([0, 0, 0.005, 0.02, 0.05]) for _ in range(tasks)]))
    # run in batches, each in its own process, with a wall-clock bound per scenario
    batch = 6
    hangs = 0
    for b0 in range(0, len(scs), batch):
        if hangs >= 3:
            ctx.note("three scenarios hung: the remaining pool scenarios were not run")
            break
        chunk = scs[b0 : b0 + batch]
        f = os.path.join(ctx.work, f"c14_{b0}.json")
        json.dump(chunk, open(f, "w"))
        t0 = time.time()
        lines, hung, stderr_tail = run_batch(f, len(chunk))
        for k, sc in enumerate(chunk):
            doc = dict(part="pool", **{x: sc[x] for x in ("tasks", "workers", "fail", "kinds", "as_completed")})
            ctx.case(doc, nontrivial=bool(sc["fail"]), sample=(b0 == 0 and k == 1))
            ctx.count("kinds:" + "+".join(sc["kinds"]) if sc["fail"] else "no-fault")
            if k >= len(lines):
                if hung is not None and k > hung:
                    continue  # not run: an earlier scenario of this batch hung
                if hung is not None and k == hung:
                    hangs += 1
                    ctx.fail(doc, dict(seconds=round(time.time() - t0, 1)), "the driving command did not terminate within the time bound (hang)")
                elif hung is None:
                    ctx.fail(doc, dict(stderr=stderr_tail), "scenario runner died")
                continue
            res = lines[k]["result"]
            allowed = model_allowed(ctx, sc)
            if sc["fail"] and (res == "success" or res.startswith("SystemExit(0")):
                ctx.fail(doc, dict(result=res), "a worker task failed but the driving command reported success")
            elif lines[k]["seconds"] > HANG_S:
                ctx.fail(doc, dict(seconds=lines[k]["seconds"]), "the driving command exceeded the time bound")
            elif res not in allowed:
                ctx.disagree(doc, res, sorted(allowed), "outcome class differs from the model")
            ctx.traces_validated += 1


DRV = r'''
import sys, os
from bio2zarr import vcf2zarr, plink
if __name__ == "__main__":
    what, w, src, out = sys.argv[1], int(sys.argv[2]), sys.argv[3], sys.argv[4]
    if what == "explode": vcf2zarr.explode(out, [src], worker_processes=w)
    elif what == "encode": vcf2zarr.encode(src, out, worker_processes=w, variants_chunk_size=3)
    elif what == "plink": plink.convert(src, out, worker_processes=w, variants_chunk_size=10)
    print("DRIVER-SUCCESS")
'''


def part_b(ctx):
    r = ctx.rnd
    d = os.path.join(ctx.work, "c14b")
    os.makedirs(d, exist_ok=True)
    drv = os.path.join(d, "drv.py")
    open(drv, "w").write(DRV)
    icf = os.path.join(d, "g.icf")
    subprocess.run([PY, "-c", f"from bio2zarr import vcf2zarr\nvcf2zarr.explode({icf!r}, ['{REPO}/tests/data/vcf/sample.vcf.gz'], worker_processes=0)"], env=ENV, check=True)
    plan = [("explode", f"{REPO}/tests/data/vcf/1kg_2020_chrM.vcf.gz", "metadata.json", [0, 1, 2, 3]),
            ("encode", icf, ".zmetadata", [0, 1, 2]),
            ("plink", f"{REPO}/tests/data/plink/plink_sim_10s_100v_10pmiss.bed", ".zmetadata", [0, 30, 50, 60, 80, 90])]
    combos = []
    for what, src, marker, idxs in plan:
        for w in (0, 1, 2, 4):
            for idx in idxs:
                for kind in ("raise", "exit", "exit-locked", "sigterm", "sysexit"):
                    if w == 0 and kind != "raise":
                        continue  # no worker process: the task runs in the driving process itself
                    combos.append((what, src, marker, w, idx, kind))
    # a worker that cannot WRITE its output: every chunk write of the chosen task fails with an OSError, for several errnos
    # (errors a retry loop might call transient, and one nobody would)
    io_combos = [(what, src, marker, w, idx, "ioerr-" + e) for what, src, marker, idxs in plan if what != "explode"
                 for w in (0, 1, 2) for idx in idxs[:2] for e in ("EIO", "ESTALE", "EAGAIN", "EBUSY", "ENOSPC", "EACCES")]
    if ctx.quick:
        combos = r.sample(combos, 30) + r.sample(io_combos, 8)
    else:
        combos += io_combos
    hangs = 0
    for what, src, marker, w, idx, kind in combos:
        if hangs >= 3:
            ctx.note("three pipeline scenarios hung: the remaining ones were not run")
            break
        out = os.path.join(d, "out")
        shutil.rmtree(out, ignore_errors=True)
        doc = dict(part="pipeline", command=what, worker_processes=w, faulty_task=idx, kind=kind)
        ctx.case(doc, nontrivial=True, sample=(len(ctx.samples) < 3))
        ctx.count("pipeline:" + what)
        t = time.time()
        mark = os.path.join(d, "fired")
        if os.path.exists(mark):
            os.remove(mark)
        try:
            p = subprocess.run([PY, drv, what, str(w), src, out], env=dict(ENV, VERIF_FAULT=f"{what}:{idx}:{kind}", VERIF_FAULT_MARK=mark), capture_output=True, text=True, timeout=HANG_S)
            ok = "DRIVER-SUCCESS" in p.stdout or p.returncode == 0
            hang = False
        except subprocess.TimeoutExpired:
            ok, hang = False, True
        fin = os.path.exists(os.path.join(out, marker))
        # was the fault reachable at all?  (task index beyond the number of tasks -> no fault)
        fired = os.path.exists(mark)
        ctx.count("pipeline-fault-fired" if fired else "pipeline-fault-not-reached")
        if not fired and not hang:
            if not ok:
                ctx.fail(doc, dict(stderr=p.stderr[-300:]), f"{what} failed although no fault was injected (task index does not exist)")
            continue
        if hang:
            hangs += 1
            ctx.fail(doc, dict(seconds=round(time.time() - t, 1)), f"{what} with a failing worker task did not terminate within the time bound")
        elif ok and fin:
            ctx.fail(doc, dict(stdout=p.stdout[-200:]), f"{what}: a partition task failed ({kind}) but the command reported success and wrote {marker}")
        elif fin:
            ctx.fail(doc, dict(returncode=p.returncode), f"{what}: the command failed but left a finished-looking output ({marker})")
        elif ok:
            ctx.fail(doc, {}, f"{what}: success reported although a task failed")
        ctx.traces_validated += 1
    shutil.rmtree(d, ignore_errors=True)


def run(ctx):
    part_a(ctx)
    part_b(ctx)


def replay(ctx, rep):
    run(ctx)
