"""C13 correspondence: rejection of unconvertible input sets.

 (a) in-process: the real sort + check_overlapping_partitions on generated interval sets
     (overlapping, touching, nested, interleaved, identical, disjoint; every file order) vs
     Model.Overlap.accept, vs the translated check, and the property itself (accepted <=>
     pairwise disjoint) evaluated on the implementation's verdict;
 (b) end to end: pairs / triples of files cut from a generated record set, in every order;
     header perturbations; the same file twice; every reserved array name as INFO and FORMAT
     key; filters used but not declared.  Outcome (error / converted) and 'no finished
     store after an error' vs the model; accepted sets must convert to sorted, complete data.
"""
import itertools
import os
import shutil
from types import SimpleNamespace

from lib import vcfgen

INFO_RESERVED = ["contig", "id", "id_mask", "position", "allele", "filter", "quality", "length"]
FORMAT_RESERVED = ["genotype", "genotype_phased", "genotype_mask"]


def impl_check(parts):
    """parts: list of (contig_index, start, end) in file order -> 'ok' | 'ValueError' | other"""
    from bio2zarr import vcf_utils
    from bio2zarr.vcf2zarr import icf

    ps = [SimpleNamespace(region=vcf_utils.Region(f"c{c}", s, e), vcf_path="x") for c, s, e in parts]
    cmap = {f"c{i}": i for i in range(100)}
    ps.sort(key=lambda x: (cmap[x.region.contig], x.region.start))
    try:
        icf.check_overlapping_partitions(ps)
        return "ok", [(cmap[p.region.contig], p.region.start, p.region.end) for p in ps]
    except ValueError:
        return "ValueError", None
    except AssertionError:
        return "AssertionError", None


def part_a(ctx):
    r = ctx.rnd
    cases = []
    for _ in range(ctx.n(4000, 100000)):
        k = r.randint(1, 6)
        parts = []
        for _ in range(k):
            c = r.randint(0, 2)
            s = r.randint(1, 40)
            parts.append((c, s, s + r.choice([0, 0, 1, 3, 10, 30])))
        if r.random() < 0.2 and parts:
            parts.append(r.choice(parts))  # identical range
        if r.random() < 0.3:
            # make it mostly disjoint: chain
            parts = []
            pos = {0: 1, 1: 1, 2: 1}
            for _ in range(k):
                c = r.randint(0, 2)
                s = pos[c] + r.randint(0, 3)
                e = s + r.randint(0, 8)
                pos[c] = e + r.choice([0, 1, 1, 2])  # 0 -> next one may touch
                parts.append((c, s, e))
            r.shuffle(parts)
        cases.append(parts)
    m = ctx.model.batch([(1300, [list(p) for p in parts]) for parts in cases])
    try:
        g = ctx.genmodel.batch([(30, [[c, s, [e]] for c, s, e in mo[2]]) for mo in m])
    except Exception as e:  # noqa: BLE001
        g = None
        ctx.note("translated check not available: " + str(e)[:80])
    for i, parts in enumerate(cases):
        out, sorted_parts = impl_check(parts)
        acc, disj, ms = m[i]
        doc = dict(part="intervals", partitions=parts)
        ctx.case(doc, nontrivial=len(parts) > 1, sample=(i == 5))
        ctx.count("accepted" if out == "ok" else "rejected")
        if (out == "ok") != (disj == 1):
            ctx.fail(doc, dict(implementation=out, pairwise_disjoint=bool(disj)),
                     f"partitions {parts}: {'accepted although two of them intersect' if out == 'ok' else 'rejected although pairwise disjoint'}")
        if (out == "ok") != (acc == 1):
            ctx.disagree(doc, out, acc, "overlap check differs from the model")
        if out == "ok" and [list(p) for p in sorted_parts] != ms:
            # equal keys may be ordered differently only if the model's stable sort is wrong
            ctx.disagree(doc, sorted_parts, ms, "sorted partition order differs from the model")
        if g is not None:
            go = "ok" if g[i][0] == 1 else {1: "ValueError", 3: "AssertionError"}.get(g[i][1], "other")
            if go != out:
                ctx.disagree(doc, out, go, "translated check differs from the real function")


HDR = ['##contig=<ID=c0,length=1000000>', '##contig=<ID=c1,length=1000000>', '##FILTER=<ID=PASS,Description="p">', '##FILTER=<ID=q10,Description="q">',
       '##INFO=<ID=DP,Number=1,Type=Integer,Description="d">']


def mkfile(d, name, recs, hdr=HDR, samples=(), kind="csi"):
    lines = []
    for rec in recs:
        c, p = rec[0], rec[1]
        extra = rec[2] if len(rec) > 2 else "DP=%d" % (p % 50)
        filt = rec[3] if len(rec) > 3 else "PASS"
        line = f"c{c}\t{p}\t.\tA\tT\t.\t{filt}\t{extra}"
        if samples:
            line += "\tGT" + "\t0/1" * len(samples)
        lines.append(line)
    return vcfgen.make_indexed(d, name, vcfgen.vcf_text(hdr, lines, samples), kind=kind)


def convert_outcome(paths, out, icf_path):
    from bio2zarr import vcf2zarr

    shutil.rmtree(out, ignore_errors=True)
    shutil.rmtree(icf_path, ignore_errors=True)
    try:
        vcf2zarr.convert(paths, out, icf_path=icf_path, worker_processes=0)
        return "ok"
    except ValueError:
        return "ValueError"
    except Exception as e:  # noqa: BLE001
        return "other:" + type(e).__name__


def finished(out, explode_stage=True):
    """does an output of the conversion present as complete?  The Zarr store's consolidated metadata; and, for input
    sets that the explode stage has to reject (duplicates, overlaps, incompatible headers), also the completion marker
    of the intermediate store next to it.  Undeclared filters and the `length` clash are detected while encoding: there
    the intermediate store is complete and correct, only the final store must not appear."""
    icf = os.path.join(os.path.dirname(out), "o.icf")
    return os.path.exists(os.path.join(out, ".zmetadata")) or (explode_stage and os.path.exists(os.path.join(icf, "metadata.json")))


def part_b(ctx):
    import zarr

    r = ctx.rnd
    d = os.path.join(ctx.work, "c13")
    os.makedirs(d, exist_ok=True)
    out, icfp = os.path.join(d, "o.vcz"), os.path.join(d, "o.icf")
    # ---- cuts of a record set ----
    for t in range(ctx.n(14, 250)):
        allrecs = sorted({(r.randint(0, 1), r.randint(1, 60)) for _ in range(r.randint(3, 12))})
        allrecs = sorted(allrecs + [x for x in allrecs if r.random() < 0.2])
        kind = r.choice(["contig_cut", "interleave", "nested", "touch", "disjoint", "identical", "triple"])
        if kind in ("disjoint", "touch"):
            k = r.randint(1, len(allrecs) - 1)
            files = [allrecs[:k], allrecs[k:]]
            if kind == "touch" and files[0][-1][0] == files[1][0][0]:
                files[1] = [files[0][-1]] + files[1]
        elif kind == "interleave":
            files = [allrecs[::2], allrecs[1::2]]
        elif kind == "nested":
            files = [allrecs[:1] + allrecs[-1:], allrecs[1:-1]]
        elif kind == "identical":
            files = [allrecs, allrecs]
        elif kind == "triple":
            a, b = sorted(r.sample(range(1, len(allrecs)), 2)) if len(allrecs) > 2 else (1, 1)
            files = [allrecs[:a], allrecs[a:b], allrecs[b:]]
        else:
            files = [[x for x in allrecs if x[0] == 0], [x for x in allrecs if x[0] == 1]]
        files = [f for f in files if f]
        if len(files) < 2:
            continue
        ikind = r.choice(["csi", "tbi"])
        paths = [mkfile(d, f"f{j}", f, kind=ikind) for j, f in enumerate(files)]
        nocounts = r.random() < 0.4
        if nocounts:
            # old-style index without per-contig counts on some of the files: the total record
            # count is then unknown (inf) and finalise takes a different path
            for pth in paths:
                if r.random() < 0.7:
                    vcfgen.strip_index_counts(ctx.model, vcfgen.index_path(pth))
        parts = []
        for f in files:
            for c in (0, 1):
                ps = [p for cc, p in f if cc == c]
                if ps:
                    parts.append([c, min(ps), max(ps)])
        acc, disj, _ = ctx.model.call(1300, parts)
        orders = list(itertools.permutations(range(len(paths))))
        for order in orders[: ctx.n(2, 6)]:
            doc = dict(part="cuts", kind=kind, index=ikind, counts_stripped=nocounts, files=[files[j] for j in order])
            ctx.case(doc, nontrivial=True, sample=(t == 0))
            ctx.count("cuts:" + kind)
            ctx.count("cuts:index-without-counts" if nocounts else "cuts:index-with-counts")
            o = convert_outcome([paths[j] for j in order], out, icfp)
            if o.startswith("other"):
                ctx.fail(doc, dict(outcome=o), "conversion of a file set died with an unexpected exception class")
            elif (o == "ok") != (disj == 1):
                ctx.fail(doc, dict(outcome=o, ranges=parts), "file set with intersecting ranges accepted" if o == "ok" else "disjoint file set rejected")
            if o != "ok" and finished(out):
                ctx.fail(doc, dict(outcome=o), "a rejected input set left a store that presents as finished")
            if o == "ok":
                root = zarr.open(out, mode="r")
                got = list(zip(root["variant_contig"][:].tolist(), root["variant_position"][:].tolist()))
                want = sorted(x for f in files for x in f)
                if got != want:
                    ctx.fail(doc, dict(got=got, want=want), "accepted input set: records duplicated, lost or out of order")
            if (o == "ok") != (acc == 1):
                ctx.disagree(doc, o, acc, "cut outcome differs from the model")
    # ---- overlapping ranges where one file's contig blocks are not in header order (text VCF allows it) ----
    blocks_rev = [(1, 100), (1, 300), (1, 500), (0, 100), (0, 300), (0, 500)]     # body: c1 block, then c0 block
    fa = mkfile(d, "rev_a", blocks_rev, kind="tbi")
    variants = {"overlap": [(0, 300), (0, 600), (0, 700)], "interleave": [(0, 200), (0, 400)], "nested": [(0, 150), (0, 250)],
                "same-records": blocks_rev, "other-contig-overlap": [(1, 50), (1, 250)]}
    for label, recs_b in variants.items():
        fb = mkfile(d, "rev_b", recs_b, kind=r.choice(["tbi", "csi"]))
        for lst in ([fa, fb], [fb, fa]):
            doc = dict(part="cut-files", special="contig blocks out of header order", variant=label, first=("a" if lst[0] == fa else "b"))
            ctx.case(doc, nontrivial=True)
            ctx.count("out-of-order-blocks")
            o = convert_outcome(lst, out, icfp)
            if o == "ok" or finished(out):
                ctx.fail(doc, dict(outcome=o), f"file set with intersecting ranges accepted (one file lists its contigs in another order than the header; {label})")
    # ---- same file twice ----
    p0 = mkfile(d, "same", [(0, 10), (0, 20), (1, 5)])
    for lst in ([p0, p0], [p0, mkfile(d, "other", [(1, 50)]), p0]):
        doc = dict(part="duplicate-path", n=len(lst))
        ctx.case(doc, nontrivial=True)
        o = convert_outcome(lst, out, icfp)
        m = ctx.model.call(1301, [[1 if x == p0 else 2 for x in lst], [7] * len(lst)])
        if o == "ok" or finished(out):
            ctx.fail(doc, dict(outcome=o), "the same file given twice was accepted")
        if (o == "ok") != (m[0] == 1):
            ctx.disagree(doc, o, m, "duplicate path outcome differs from the model")
    # ---- the same file under different spellings of its path (str / Path, "./", "//", only input) ----
    import pathlib

    dn, bn = os.path.split(p0)
    spellings = {"dot": os.path.join(dn, ".", bn), "double-slash": dn + "//" + bn, "pathlib": pathlib.Path(p0),
                 "relative": os.path.relpath(p0, os.getcwd())}
    for label, alt in spellings.items():
        for lst in ([p0, alt], [alt, p0]):
            doc = dict(part="duplicate-path-spelling", spelling=label, first=("plain" if lst[0] is p0 else label))
            ctx.case(doc, nontrivial=True)
            ctx.count("duplicate-spelling")
            o = convert_outcome(lst, out, icfp)
            if o == "ok" or finished(out):
                ctx.fail(doc, dict(outcome=o, paths=[str(x) for x in lst]), f"the same file given twice (second spelling: {label}) was accepted")
    # ---- header perturbations ----
    base = [(0, 10), (0, 20)]
    other = [(0, 100), (0, 200)]
    perturb = {
        "extra-info": HDR + ['##INFO=<ID=XX,Number=1,Type=Integer,Description="x">'],
        "missing-info": [h for h in HDR if "ID=DP" not in h],
        "retyped-info": [h.replace("Type=Integer", "Type=Float") if "ID=DP" in h else h for h in HDR],
        "renumbered-info": [h.replace("Number=1", "Number=2") if "ID=DP" in h else h for h in HDR],
        "extra-contig": HDR[:2] + ['##contig=<ID=c2,length=5>'] + HDR[2:],
        "extra-filter": HDR + ['##FILTER=<ID=zz,Description="z">'],
        "same": HDR,
    }
    pa = mkfile(d, "ha", base)
    for name, hdr in perturb.items():
        recs2 = [(c, p, "." if name in ("missing-info",) else ("DP=1.5" if name == "retyped-info" else ("DP=1,2" if name == "renumbered-info" else "DP=3"))) for c, p in other]
        pb = mkfile(d, "hb", recs2, hdr=hdr)
        for lst in ([pa, pb], [pb, pa]):
            doc = dict(part="header", perturbation=name, first=("a" if lst[0] == pa else "b"))
            ctx.case(doc, nontrivial=True)
            ctx.count("header:" + name)
            o = convert_outcome(lst, out, icfp)
            m = ctx.model.call(1301, [[1, 2], [1, 1 if name == "same" else 2]])
            if name != "same" and (o == "ok" or finished(out)):
                ctx.fail(doc, dict(outcome=o), f"files with incompatible headers ({name}) were accepted")
            if name == "same" and o != "ok":
                ctx.fail(doc, dict(outcome=o), "files with identical headers were rejected")
            if (o == "ok") != (m[0] == 1):
                ctx.disagree(doc, o, m, "header outcome differs from the model")
    # INFO and FORMAT keys sharing an ID: each must be compared in its own category
    HS = HDR + ['##FORMAT=<ID=GT,Number=1,Type=String,Description="g">', '##FORMAT=<ID=DP,Number=1,Type=Integer,Description="fd">']
    def mk_shared(name, hdr, info_val, fmt_val, pos):
        text = vcfgen.vcf_text(hdr, [f"c0\t{p}\t.\tA\tT\t.\tPASS\t{info_val}\tGT:DP\t0/1:{fmt_val}" for p in pos], ("S1",))
        return vcfgen.make_indexed(d, name, text)
    sa = mk_shared("sa", HS, "DP=3", "4", (10, 20))
    shared = {
        "info-retyped": ([h.replace("Type=Integer", "Type=Float") if "INFO=<ID=DP" in h else h for h in HS], "DP=1.5", "4"),
        "info-renumbered": ([h.replace("Number=1", "Number=2") if "INFO=<ID=DP" in h else h for h in HS], "DP=1,2", "4"),
        "info-missing": ([h for h in HS if "INFO=<ID=DP" not in h], ".", "4"),
        "format-retyped": ([h.replace("Type=Integer", "Type=Float") if "FORMAT=<ID=DP" in h else h for h in HS], "DP=3", "1.5"),
        "format-renumbered": ([h.replace("Number=1", "Number=2") if "FORMAT=<ID=DP" in h else h for h in HS], "DP=3", "1,2"),
        "info-description": ([h.replace('Description="d"', 'Description="other"') if "INFO=<ID=DP" in h else h for h in HS], "DP=3", "4"),
        "same": (HS, "DP=5", "6"),
    }
    for name, (hdr, iv, fv) in shared.items():
        sb = mk_shared("sb", hdr, iv, fv, (100, 200))
        for lst in ([sa, sb], [sb, sa]):
            doc = dict(part="header", perturbation="shared-id:" + name, first=("a" if lst[0] == sa else "b"))
            ctx.case(doc, nontrivial=True)
            ctx.count("header:shared-id")
            o = convert_outcome(lst, out, icfp)
            if name != "same" and (o == "ok" or finished(out)):
                ctx.fail(doc, dict(outcome=o), f"files with incompatible headers (INFO/FORMAT sharing an ID, {name}) were accepted")
            if name == "same" and o != "ok":
                ctx.fail(doc, dict(outcome=o), "files with identical headers were rejected")
    # a sample set difference
    pc = mkfile(d, "hc", base, samples=("S1",))
    pd = mkfile(d, "hd", other, samples=("S2",))
    doc = dict(part="header", perturbation="samples")
    ctx.case(doc, nontrivial=True)
    o = convert_outcome([pc, pd], out, icfp)
    if o == "ok" or finished(out):
        ctx.fail(doc, dict(outcome=o), "files with different samples were accepted")
    # three files of which only one differs (in every position), sample / contig order differences
    third = [(1, 300), (1, 400)]
    pa2 = mkfile(d, "ha2", third)
    for name in ("retyped-info", "extra-filter", "extra-contig"):
        recs2 = [(c, p, "DP=1.5" if name == "retyped-info" else "DP=3") for c, p in other]
        pb = mkfile(d, "hb3", recs2, hdr=perturb[name])
        for lst in itertools.permutations([pa, pa2, pb]):
            doc = dict(part="header", perturbation="one-of-three:" + name, position=list(lst).index(pb))
            ctx.case(doc, nontrivial=True)
            ctx.count("header:one-of-three")
            o = convert_outcome(list(lst), out, icfp)
            if o == "ok" or finished(out):
                ctx.fail(doc, dict(outcome=o), f"three files of which one has an incompatible header ({name}) were accepted")
    pe = mkfile(d, "he", base, samples=("S1", "S2"))
    pf = mkfile(d, "hf", other, samples=("S2", "S1"))
    doc = dict(part="header", perturbation="sample-order")
    ctx.case(doc, nontrivial=True)
    o = convert_outcome([pe, pf], out, icfp)
    if o == "ok" or finished(out):
        ctx.fail(doc, dict(outcome=o), "files whose samples are in a different order were accepted")
    hswap = [HDR[1], HDR[0]] + HDR[2:]
    pg = mkfile(d, "hg", other, hdr=hswap)
    doc = dict(part="header", perturbation="contig-order")
    ctx.case(doc, nontrivial=True)
    o = convert_outcome([pa, pg], out, icfp)
    if o == "ok" or finished(out):
        ctx.fail(doc, dict(outcome=o), "files whose contigs are declared in a different order were accepted")
    # ---- reserved names ----
    for key in INFO_RESERVED + ["DPX"]:
        hdr = HDR + [f'##INFO=<ID={key},Number=1,Type=Integer,Description="clash">']
        p = mkfile(d, "rn", [(0, 10, f"{key}=5"), (0, 20, f"{key}=6")], hdr=hdr)
        doc = dict(part="reserved", category="INFO", key=key)
        ctx.case(doc, nontrivial=True)
        ctx.count("reserved-info")
        o = convert_outcome([p], out, icfp)
        kid = INFO_RESERVED.index(key) if key in INFO_RESERVED else 100
        m = ctx.model.call(1302, [[200, kid], [], 0])  # DP=200 then the key
        if key in INFO_RESERVED and (o == "ok" or finished(out, explode_stage=(key != "length"))):
            ctx.fail(doc, dict(outcome=o), f"INFO key '{key}' clashing with a reserved array was accepted")
        if key not in INFO_RESERVED and o != "ok":
            ctx.fail(doc, dict(outcome=o), "harmless INFO key rejected")
        if (o == "ok") != (m[0] == 1):
            ctx.disagree(doc, o, m, "reserved-name outcome differs from the model")
    for key in FORMAT_RESERVED + ["DPX"]:
        hdr = HDR + ['##FORMAT=<ID=GT,Number=1,Type=String,Description="g">', f'##FORMAT=<ID={key},Number=1,Type=Integer,Description="clash">']
        text = vcfgen.vcf_text(hdr, [f"c0\t10\t.\tA\tT\t.\tPASS\tDP=1\tGT:{key}\t0/1:5", f"c0\t20\t.\tA\tT\t.\tPASS\tDP=2\tGT:{key}\t1/1:7"], ("S1",))
        p = vcfgen.make_indexed(d, "rf", text)
        doc = dict(part="reserved", category="FORMAT", key=key)
        ctx.case(doc, nontrivial=True)
        ctx.count("reserved-format")
        o = convert_outcome([p], out, icfp)
        kid = FORMAT_RESERVED.index(key) if key in FORMAT_RESERVED else 100
        m = ctx.model.call(1302, [[200], [kid], 1])
        if key in FORMAT_RESERVED and (o == "ok" or finished(out)):
            ctx.fail(doc, dict(outcome=o), f"FORMAT key '{key}' clashing with a reserved array was accepted")
        if key not in FORMAT_RESERVED and o != "ok":
            ctx.fail(doc, dict(outcome=o), "harmless FORMAT key rejected")
        if (o == "ok") != (m[0] == 1):
            ctx.disagree(doc, o, m, "reserved-name outcome differs from the model")
    # ---- undeclared filters ----
    # the filter is used on the first record of the file / on the first record of a later contig / inside
    places = {"interior": lambda u: [(0, 10, "DP=1", "PASS"), (0, 20, "DP=2", u), (1, 5, "DP=3", "PASS")],
              "first-record": lambda u: [(0, 10, "DP=1", u), (0, 20, "DP=2", "PASS"), (1, 5, "DP=3", "PASS")],
              "first-of-contig": lambda u: [(0, 10, "DP=1", "PASS"), (0, 20, "DP=2", "PASS"), (1, 5, "DP=3", u), (1, 9, "DP=3", "PASS")],
              "last-record": lambda u: [(0, 10, "DP=1", "PASS"), (1, 5, "DP=3", "PASS"), (1, 9, "DP=3", u)]}
    for used, declared_ok, place in [(u, ok, pl) for (u, ok) in (("PASS", True), ("q10", True), ("q10;zz9", False), ("nope", False)) for pl in places]:
        p = mkfile(d, "uf", places[place](used))
        doc = dict(part="filters", used=used, place=place)
        ctx.case(doc, nontrivial=True)
        ctx.count("filters")
        o = convert_outcome([p], out, icfp)
        ids = {"PASS": 0, "q10": 1}
        m = ctx.model.call(1303, [[0, 1], [[ids.get(x, 50 + j) for j, x in enumerate(rec[3].split(";"))] for rec in places[place](used)]])
        if not declared_ok and (o == "ok" or finished(out, explode_stage=False)):
            ctx.fail(doc, dict(outcome=o), f"filter '{used}' used but not declared was accepted")
        if declared_ok and o != "ok":
            ctx.fail(doc, dict(outcome=o), "declared filter rejected")
        if (o == "ok") != (m[0] == 1):
            ctx.disagree(doc, o, m, "filter outcome differs from the model")
    shutil.rmtree(d, ignore_errors=True)


def run(ctx):
    part_a(ctx)
    part_b(ctx)


def replay(ctx, rep):
    c = rep["case"]
    if c.get("part") == "intervals":
        parts = [tuple(p) for p in c["partitions"]]
        out, _ = impl_check(parts)
        acc, disj, _ = ctx.model.call(1300, [list(p) for p in parts])
        ctx.case(c)
        if (out == "ok") != (disj == 1):
            ctx.fail(c, dict(implementation=out, pairwise_disjoint=bool(disj)), "overlap verdict wrong")
    else:
        run(ctx)
