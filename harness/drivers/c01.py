"""C01 correspondence: the end-to-end value oracle.

An abstract VCF is drawn (any number of used / unused contigs, 1..60 records, 0..4 samples, every
Type x Number in {Integer, Float, Flag, Character, String} x {0,1,2,3,A,R,G,.} for INFO and
FORMAT, every missingness pattern incl. dropped trailing FORMAT keys and records without GT,
int8/16/32 boundary values, +-inf, denormals, mixed ploidy and phasing, 0..n filters, duplicate
positions, contig blocks in a different order than the header lines), written as text (floats
with 9 significant digits, so that text -> float32 is exact), built as {vcf.gz, bcf} x {tbi,
csi}, converted with the real convert / explode+encode, read back and compared cell by cell
with Model.Spec.spec_encode of the ABSTRACT file evaluated by the extracted model; the
container x index variants are also compared with each other.
"""
import os
import itertools
import shutil

from lib import absvcf, oracle, vcfgen


def widen(case, k):
    """turn record k into a site with 130 ALT alleles whose genotypes use allele indexes 127..130
    (beyond int8); Number=A/R/G values of that record are dropped (absent = missing)"""
    x = case["recs"][k]
    seen = {x["ref"]}
    alts = []
    for a in itertools.product("ACGT", repeat=4):
        a = "".join(a)
        if a not in seen:
            alts.append(a)
            seen.add(a)
        if len(alts) == 130:
            break
    x["alts"] = alts
    for key, n, t in case["infos"]:
        if n in ("A", "R", "G"):
            x["info"].pop(key, None)
    drop = {key for key, n, t in x.get("fmt_keys", []) if n in ("A", "R", "G")}
    keep = [f for f in x.get("fmt_keys", []) if f[0] not in drop]
    if keep or x["gt"] is not None:
        x["fmt_keys"] = keep
        for key in drop:
            x["fmt"].pop(key, None)
    if x["gt"] is not None:
        hi = itertools.cycle([127, 128, 129, 130, 0, 126])
        x["gt"] = [([None if a is None else next(hi) for a in al], ph) for al, ph in x["gt"]]
    case["wide_site"] = k


def gen(ctx, seed, force_wide=False):
    case = absvcf.gen_case(seed)
    r = ctx.rnd
    cands = [k for k, x in enumerate(case["recs"]) if x["gt"] is not None]
    if cands and (force_wide or r.random() < 0.12):
        widen(case, cands[len(cands) // 2])
    # contig blocks of the file in an order that differs from the header lines (text VCF allows it)
    if r.random() < 0.3 and len({x["contig"] for x in case["recs"]}) > 1:
        case["file_order"] = "reversed-contigs"
    return case


def file_text(case):
    if case.get("file_order") == "reversed-contigs":
        c2 = dict(case)
        blocks = {}
        for x in case["recs"]:
            blocks.setdefault(x["contig"], []).append(x)
        c2["recs"] = [x for c in sorted(blocks, reverse=True) for x in blocks[c]]
        return absvcf.to_text(c2)
    return absvcf.to_text(case)


def convert_and_compare(ctx, doc, case, spec, intern, path, out, **kw):
    from bio2zarr import vcf2zarr

    shutil.rmtree(out, ignore_errors=True)
    shutil.rmtree(out + ".icf", ignore_errors=True)
    col = kw.pop("column_chunk_size", None)
    try:
        if col is None:
            vcf2zarr.convert([path], out, worker_processes=0, icf_path=out + ".icf", **kw)
        else:
            # the same conversion in its two documented steps, the intermediate store written in chunks of a few hundred bytes
            # (every field spans many chunks per partition, as a field of a large file does with the default 16 MiB)
            vcf2zarr.explode(out + ".icf", [path], worker_processes=0, column_chunk_size=col)
            vcf2zarr.encode(out + ".icf", out, worker_processes=0, **kw)
    except Exception as e:  # noqa: BLE001
        msg = f"{type(e).__name__}: {e}"[:300]
        big = over_limit_arrays(out + ".icf", **kw)
        cls = "chunk_over_blosc_limit" if big and isinstance(e, ValueError) and ("does not support buffers" in msg or "chunks are too large" in msg) else None
        ctx.fail(doc, {"class": cls, "error": msg, "arrays_over_limit": big}, "conversion of a well-formed indexed file failed")
        return None
    store, root = oracle.read_store(out, intern)
    probs = oracle.compare(case, spec, store) + oracle.header_problems(case, root)
    for kind, arr, detail in probs[:3]:
        ctx.fail(dict(doc, array=str(arr)), dict(kind=kind, detail=detail),
                 f"stored {arr} differs from the VCF Zarr encoding of the input ({kind}: {detail})")
    return store


def over_limit_arrays(icf_path, **kw):
    """arrays of the schema generated for this store whose UNCLIPPED chunk exceeds the codec's buffer limit"""
    import numpy as np
    from bio2zarr.vcf2zarr import icf as icf_mod, vcz

    try:
        schema = vcz.VcfZarrSchema.generate(icf_mod.IntermediateColumnarFormat(icf_path), **kw)
    except Exception:  # noqa: BLE001
        return []
    out = []
    for sp in schema.fields:
        n = np.dtype(sp.dtype).itemsize
        for k, c in enumerate(sp.chunks):
            n *= c
        for w in sp.shape[len(sp.chunks):]:
            n *= w
        if n > 2**31 - 1:
            out.append([sp.name, list(sp.chunks), sp.dtype, n])
    return out


def f18_probe(ctx, d):
    """the smallest input of class F18: one record, one sample, 14 ALT alleles, PL (Number=G: 120 values, one above 127)"""
    from bio2zarr import vcf2zarr

    nalt = 14
    npl = (nalt + 1) * (nalt + 2) // 2
    hdr = ['##contig=<ID=chr1,length=100000>', '##FILTER=<ID=PASS,Description="p">', '##FORMAT=<ID=GT,Number=1,Type=String,Description="g">',
           '##FORMAT=<ID=PL,Number=G,Type=Integer,Description="pl">']
    alts = ",".join("CGT"[k % 3] * (k + 1) for k in range(nalt))
    rec = f"chr1\t10\t.\tA\t{alts}\t.\tPASS\t.\tGT:PL\t0/1:" + ",".join(str(200 if i == 3 else i % 100) for i in range(npl))
    p = vcfgen.make_indexed(d, "f18", vcfgen.vcf_text(hdr, [rec], ["s0"]), kind="tbi")
    out = os.path.join(d, "f18.vcz")
    for opts in ({}, dict(variants_chunk_size=1000, samples_chunk_size=100)):
        doc = dict(part="wide-field-default-chunks", alts=nalt, records=1, samples=1, options=opts)
        ctx.case(doc, nontrivial=True)
        ctx.count("wide-field probe")
        shutil.rmtree(out, ignore_errors=True)
        shutil.rmtree(out + ".icf", ignore_errors=True)
        try:
            vcf2zarr.convert([p], out, worker_processes=0, icf_path=out + ".icf", **opts)
        except Exception as e:  # noqa: BLE001
            msg = f"{type(e).__name__}: {e}"[:300]
            big = over_limit_arrays(out + ".icf", **opts)
            cls = "chunk_over_blosc_limit" if big and isinstance(e, ValueError) and ("does not support buffers" in msg or "chunks are too large" in msg) else None
            ctx.fail(doc, {"class": cls, "error": msg, "arrays_over_limit": big}, "conversion of a well-formed indexed file failed")
    shutil.rmtree(out, ignore_errors=True)
    shutil.rmtree(out + ".icf", ignore_errors=True)


def run(ctx):
    r = ctx.rnd
    d = os.path.join(ctx.work, "c01")
    os.makedirs(d)
    f18_probe(ctx, d)
    for i in range(ctx.n(40, 1500)):
        seed = ctx.seed * 1000003 + i
        case = gen(ctx, seed, force_wide=(i % 16 == 5))
        intern = oracle.Intern()
        spec = oracle.spec_arrays(ctx, case, intern)
        text = file_text(case)
        doc0 = dict(gen_seed=seed, records=len(case["recs"]), samples=len(case["samples"]), infos=[f"{k}:{n}:{t}" for k, n, t in case["infos"]],
                    fmts=[f"{k}:{n}:{t}" for k, n, t in case["fmts"]], file_order=case.get("file_order", "header"), wide_site=case.get("wide_site"))
        if spec is None:
            ctx.note(f"specification refuses case {seed}")
            continue
        variants = [("vcf.gz", "tbi", False), ("vcf.gz", "csi", False), ("bcf", "csi", True)]
        if ctx.quick:
            variants = [variants[i % 3], variants[(i + 1) % 3]]
        stores = {}
        kw = dict(variants_chunk_size=r.choice([None, 1, 3, 7]), samples_chunk_size=r.choice([None, 1, 2]))
        if i % 3 == 1:
            kw["column_chunk_size"] = r.choice([0.0001, 0.0005, 0.002])      # MiB
            ctx.count("two-step conversion, small intermediate chunks")
        for cont, idx, bcf in variants:
            if bcf and case.get("file_order") == "reversed-contigs":
                pass  # bcftools view keeps the record order; the header order decides the output order
            try:
                p = vcfgen.make_indexed(d, "in", text, kind=idx, min_shift=r.choice([9, 12, 14]), bcf=bcf)
            except Exception as e:  # noqa: BLE001  (htslib refusing the generated file says nothing about bio2zarr)
                ctx.note(f"generator: htslib could not write / index case {seed} as {cont}+{idx}: {type(e).__name__}")
                continue
            doc = dict(doc0, container=cont, index=idx)
            ctx.case(doc, nontrivial=len(case["infos"]) + len(case["fmts"]) > 0, sample=(i == 0 and idx == "tbi"))
            ctx.count(f"{cont}+{idx}")
            for k, n, t in case["infos"] + case["fmts"]:
                ctx.count(f"field:{t}:{n}")
            stores[(cont, idx)] = convert_and_compare(ctx, dict(doc, column_chunk_size=kw.get("column_chunk_size")), case, spec, intern, p, os.path.join(d, "out.vcz"), **kw)
            ctx.traces_validated += 1
        keys = [k for k in stores if stores[k] is not None]
        for a, b in zip(keys, keys[1:]):
            sa = {k: v for k, v in stores[a].items() if k != "call_genotype_phased"}
            sb = {k: v for k, v in stores[b].items() if k != "call_genotype_phased"}
            if sa != sb:
                bad = [k for k in sa if sa.get(k) != sb.get(k)][:3]
                ctx.fail(dict(doc0, variants=[list(a), list(b)]), dict(arrays=bad), f"stored values depend on the container / index kind ({a} vs {b}): {bad}")
    shutil.rmtree(d, ignore_errors=True)


def replay(ctx, rep):
    c = rep["case"]
    if c.get("part") == "wide-field-default-chunks":
        d = os.path.join(ctx.work, "c01")
        os.makedirs(d, exist_ok=True)
        f18_probe(ctx, d)
    elif "gen_seed" in c:
        seed = c["gen_seed"]
        case = absvcf.gen_case(seed)
        if c.get("file_order") == "reversed-contigs":
            case["file_order"] = "reversed-contigs"
        if c.get("wide_site") is not None:
            widen(case, c["wide_site"])
        intern = oracle.Intern()
        spec = oracle.spec_arrays(ctx, case, intern)
        d = os.path.join(ctx.work, "c01")
        os.makedirs(d, exist_ok=True)
        p = vcfgen.make_indexed(d, "in", file_text(case), kind=c.get("index", "tbi"), bcf=(c.get("container") == "bcf"))
        ctx.case(c)
        extra = {"column_chunk_size": c["column_chunk_size"]} if c.get("column_chunk_size") else {}
        convert_and_compare(ctx, c, case, spec, intern, p, os.path.join(d, "out.vcz"), **extra)
    else:
        run(ctx)
