"""C17 correspondence: local-allele fields.

 (a) in-process: the real compute_laa_field / compute_lpl_field on duck-typed variants
     (genotype.array(), ALT, FORMAT, ploidy, format("PL")) over 0..4 alternate alleles
     (thorough 0..8), ploidy 1..3, all missingness patterns (missing alleles, PL absent, '.'
     for every sample, '.' for some samples), vs Model.LocalAlleles, and the property itself:
     LAA row = ascending distinct alternate alleles of the call then fill (check_laa_row);
     LPL row = the original PL entry of each local genotype, fill beyond (spec_lpl_row);
 (b) end to end: generated haploid/diploid VCFs with FORMAT/PL converted with and without
     local alleles; every other array identical, LAA/LPL vs the specification; files already
     carrying LAA / LPL; ploidy 3 rejected.
"""
import os
import shutil

import numpy as np

from lib import vcfgen

VCF_INT_MISSING = -2147483648
VCF_INT_FILL = -2147483647


class FakeGenotype:
    def __init__(self, arr):
        self._a = arr

    def array(self):
        return self._a.copy()


class FakeVariant:
    def __init__(self, gts, phased, nalt, ploidy, pl, has_gt=True):
        n = len(gts)
        self.ALT = ["A" * (i + 1) for i in range(nalt)]
        self.FORMAT = (["GT"] if has_gt else []) + (["PL"] if pl is not None else [])
        self.num_called = n
        self.num_unknown = 0
        self.ploidy = ploidy
        g = np.array([list(row) + [int(p)] for row, p in zip(gts, phased)], dtype=np.int16)
        self.genotype = FakeGenotype(g)
        self._pl = pl

    def format(self, name):
        assert name == "PL"
        return self._pl.copy()


def npl(nalt, ploidy):
    return nalt + 1 if ploidy == 1 else (nalt + 1) * (nalt + 2) // 2


def gen_variant(r, max_alt):
    nalt = r.randint(0, max_alt)
    wide = r.random() < 0.08
    if wide:
        nalt = r.randint(9, 16)   # beyond the allele numbers whose genotype index b(b+1)/2+a fits a small integer type
    ploidy = r.choice([1, 2, 2, 2])
    ns = r.randint(1, 4)
    gts = []
    for _ in range(ns):
        k = ploidy if r.random() < 0.85 else r.randint(1, ploidy)
        row = [(-1 if r.random() < 0.15 else (r.randint(max(0, nalt - 3), nalt) if wide and r.random() < 0.7 else r.randint(0, nalt))) for _ in range(k)] + [-2] * (ploidy - k)
        gts.append(row)
    mode = r.choice(["full", "full", "absent", "all-dot", "some-dot"])
    width = npl(nalt, ploidy)
    if mode == "absent":
        pl = None
    elif mode == "all-dot":
        pl = np.full((ns, 1), VCF_INT_MISSING, dtype=np.int32)
    else:
        pl = np.array([[r.randint(0, 255) for _ in range(width)] for _ in range(ns)], dtype=np.int32)
        if mode == "some-dot":
            for s in range(ns):
                if r.random() < 0.4:
                    pl[s, 0] = VCF_INT_MISSING
                    pl[s, 1:] = VCF_INT_FILL
        for s in range(ns):
            if r.random() < 0.1:
                pl[s, r.randrange(width)] = VCF_INT_MISSING  # a single missing likelihood
    return dict(nalt=nalt, ploidy=ploidy, gts=gts, phased=[r.random() < 0.5 for _ in range(ns)], mode=mode,
                pl=None if pl is None else pl.tolist())


def sanit(rows):
    return [[-2 if x == VCF_INT_FILL else (-1 if x == VCF_INT_MISSING else int(x)) for x in row] for row in rows]


def run_variant(ctx, doc):
    from bio2zarr.vcf2zarr import icf

    nalt, ploidy, gts = doc["nalt"], doc["ploidy"], doc["gts"]
    pl = None if doc["pl"] is None else np.array(doc["pl"], dtype=np.int32)
    v = FakeVariant(gts, doc["phased"], nalt, ploidy, pl)
    try:
        laa = icf.compute_laa_field(v)
        laa_l = laa.tolist()
    except Exception as e:  # noqa: BLE001
        ctx.fail(doc, dict(error=f"{type(e).__name__}: {e}"[:200]), "compute_laa_field raised")
        return
    m_laa = ctx.model.call(1700, [nalt, gts])
    if laa_l != m_laa:
        ctx.disagree(doc, laa_l, m_laa, "compute_laa_field differs from the model")
    for s, (gt, row) in enumerate(zip(gts, laa_l)):
        if ctx.model.call(1702, [nalt, gt, row]) != 1:
            ctx.fail(dict(doc, sample=s), dict(gt=gt, laa=row), f"LAA of genotype {gt} is {row}: not its ascending distinct alternate alleles then fill")
    # LPL
    try:
        lpl = icf.compute_lpl_field(FakeVariant(gts, doc["phased"], nalt, ploidy, pl), laa)
        impl = [1, sanit(lpl.tolist())]
    except ValueError:
        impl = [0, 1]
    except IndexError:
        impl = [0, 4]
    plm = [] if pl is None else [[-1 if x == VCF_INT_MISSING else int(x) for x in row] for row in pl.tolist()]
    mo = ctx.model.call(1701, [ploidy, pl is not None, laa_l, plm])
    if mo[0] == 1:
        mo = [1, sanit(mo[1])]
    if impl != mo:
        ctx.disagree(doc, impl, mo, "compute_lpl_field differs from the model")
    if ploidy > 2:
        if impl[0] != 0:
            ctx.fail(doc, dict(result=impl), "a ploidy that cannot be localised was not rejected")
        return
    if impl[0] != 1:
        ctx.fail(doc, dict(result=impl), "compute_lpl_field raised on a haploid/diploid record")
        return
    width = len(impl[1][0]) if impl[1] else 0
    for s, gt in enumerate(gts):
        alts = sorted({a for a in gt if a > 0})
        if pl is None or pl[s, 0] == VCF_INT_MISSING and (pl.shape[1] == 1 or all(x == VCF_INT_FILL for x in pl[s, 1:])):
            plarg = []  # the call's PL is absent / '.'
        else:
            plarg = [sanit([pl[s].tolist()])[0]]
        want = ctx.model.call(1703, [ploidy, width, alts, plarg])
        got = impl[1][s]
        if plarg == []:
            # PL absent for the record (whole row missing = the encoding of an absent value) or '.'
            # for this sample (missing then fill = the original under the short-vector encoding):
            # every cell is missing or fill, the first one missing
            ok = got[0] == -1 and all(x in (-1, -2) for x in got)
        else:
            ok = got == want
        if not ok:
            nloc = len(alts) + 1 if ploidy == 1 else (len(alts) + 1) * (len(alts) + 2) // 2
            cls = None
            if ploidy == 1 and got[:nloc] == want[:nloc] and all(w == -2 for w in want[nloc:]):
                cls = "haploid_lpl_fill"  # F5: padded local alleles index PL[-2] instead of giving fill
            ctx.fail(dict(doc, sample=s), {"class": cls, "gt": gt, "lpl": got, "expected": want},
                     f"LPL of call {gt} (ploidy {ploidy}) is {got}, expected {want}")


def part_a(ctx):
    r = ctx.rnd
    for i in range(ctx.n(1500, 40000)):
        doc = gen_variant(r, ctx.n(4, 8))
        doc["part"] = "in-process"
        ctx.case(doc, nontrivial=(doc["nalt"] > 0), sample=(i == 7))
        ctx.count(f"ploidy{doc['ploidy']}:{doc['mode']}")
        run_variant(ctx, doc)
    for ploidy in (3, 4):
        doc = dict(part="in-process", nalt=2, ploidy=ploidy, gts=[[0, 1, 2, 0][:ploidy]], phased=[False], mode="full",
                   pl=[[1, 2, 3, 4, 5, 6, 7, 8, 9, 10]])
        ctx.case(doc, nontrivial=True)
        run_variant(ctx, doc)


def part_b(ctx):
    import zarr
    from bio2zarr import vcf2zarr

    r = ctx.rnd
    d = os.path.join(ctx.work, "c17")
    os.makedirs(d, exist_ok=True)
    hdr0 = ['##contig=<ID=chr1,length=100000>', '##FILTER=<ID=PASS,Description="p">', '##INFO=<ID=DP,Number=1,Type=Integer,Description="d">',
            '##FORMAT=<ID=GT,Number=1,Type=String,Description="g">', '##FORMAT=<ID=PL,Number=G,Type=Integer,Description="pl">',
            '##FORMAT=<ID=AD,Number=R,Type=Integer,Description="ad">']
    for i in range(ctx.n(12, 200)):
        ns = r.randint(1, 4)
        samples = [f"s{k}" for k in range(ns)]
        ploidy = r.choice([1, 2, 2])
        carry = [None, "LAA", "LPL", "LAA"][(i // 3) % 4] if i % 3 == 0 else None   # stratified: every run has files carrying LAA / LPL
        hdr = list(hdr0)
        if carry == "LAA":
            hdr.append('##FORMAT=<ID=LAA,Number=.,Type=Integer,Description="l">')
        if carry == "LPL":
            hdr.append('##FORMAT=<ID=LPL,Number=.,Type=Integer,Description="l">')
        recs, truth = [], []
        pos = 10
        for _ in range(r.randint(1, 8)):
            nalt = r.randint(0 if i % 2 else 1, 4)
            if r.random() < 0.12:
                nalt = r.randint(11, 14)
            alts = ",".join("CGT"[k % 3] * (k + 1) for k in range(nalt)) or "."
            has_pl = r.random() < 0.8
            cols, tr = [], []
            for s in range(ns):
                gt = [(None if r.random() < 0.12 else (r.randint(nalt - 2, nalt) if nalt > 10 and r.random() < 0.6 else r.randint(0, nalt))) for _ in range(ploidy)]
                g = r.choice("/|").join("." if x is None else str(x) for x in gt)
                pl = None
                parts = [g]
                if has_pl:
                    if r.random() < 0.2:
                        parts.append(".")
                    else:
                        pl = [r.randint(0, 200) for _ in range(npl(nalt, ploidy))]
                        parts.append(",".join(map(str, pl)))
                parts.append(",".join(str(r.randint(0, 30)) for _ in range(nalt + 1)))
                if carry == "LAA":
                    # a valid LAA: the call's own alternate alleles
                    parts.append(",".join(str(x) for x in sorted({x for x in gt if x not in (None, 0)})) or ".")
                elif carry == "LPL":
                    parts.append(",".join(str(r.randint(0, 99)) for _ in range(2)))
                cols.append(":".join(parts))
                tr.append((gt, pl))
            fmt = "GT" + (":PL" if has_pl else "") + ":AD" + (f":{carry}" if carry else "")
            recs.append(f"chr1\t{pos}\t.\tA\t{alts}\t.\tPASS\tDP={r.randint(1, 99)}\t{fmt}\t" + "\t".join(cols))
            truth.append((nalt, has_pl, tr))
            pos += 10
        pth = vcfgen.make_indexed(d, "in", vcfgen.vcf_text(hdr, recs, samples), kind=r.choice(["csi", "tbi"]))
        a_path, b_path = os.path.join(d, "a.vcz"), os.path.join(d, "b.vcz")
        shutil.rmtree(a_path, ignore_errors=True)
        shutil.rmtree(b_path, ignore_errors=True)
        doc = dict(part="e2e", ploidy=ploidy, samples=ns, carry=carry, records=[x.split("\t", 8)[8] for x in recs][:6], alts=[t[0] for t in truth])
        ctx.case(doc, nontrivial=True, sample=(i == 0))
        ctx.count(f"e2e:ploidy{ploidy}:carry={carry}")
        try:
            vcf2zarr.convert([pth], a_path, worker_processes=0, local_alleles=True)
            vcf2zarr.convert([pth], b_path, worker_processes=0, local_alleles=False)
        except Exception as e:  # noqa: BLE001
            # a file that cannot be converted WITHOUT local alleles either, with the same error, says nothing about C17
            # (finding F18 under C01: a wide PL array whose default chunk exceeds the codec's 2 GiB limit)
            shutil.rmtree(b_path, ignore_errors=True)
            try:
                vcf2zarr.convert([pth], b_path, worker_processes=0, local_alleles=False)
                same = False
            except Exception as e2:  # noqa: BLE001
                same = type(e2) is type(e) and str(e2) == str(e)
            if same:
                ctx.note(f"conversion refused with and without local alleles alike ({type(e).__name__}: {str(e)[:60]}): not a C17 matter")
                continue
            ctx.fail(doc, dict(error=f"{type(e).__name__}: {e}"[:300]), "conversion with local alleles raised")
            continue
        a, b = zarr.open(a_path, mode="r"), zarr.open(b_path, mode="r")
        for k in b.array_keys():
            if k not in a:
                ctx.fail(doc, dict(array=k), "an array disappears when local alleles are enabled")
                continue
            x, y = a[k][:], b[k][:]
            if x.dtype.kind == "f":
                x, y = x.view(np.int32), y.view(np.int32)
            if k == "call_genotype_phased" and ploidy == 1:
                continue  # F8 don't-care
            if x.shape != y.shape or not (x == y).all() or a[k].dtype != b[k].dtype:
                ctx.fail(doc, dict(array=k), f"array {k} changes when local alleles are enabled")
        extra = set(a.array_keys()) - set(b.array_keys())
        if not extra <= {"call_LAA", "call_LPL"}:
            ctx.fail(doc, dict(extra=sorted(extra)), "enabling local alleles adds arrays other than the local-allele fields")
        # a file that carries its own (valid) LAA -- '.' for a call without alternate alleles -- and PL but no LPL gets its LPL
        # computed from the carried LAA: the expectation is the same projection
        if carry in (None, "LAA") and "call_LAA" in a and "call_LPL" in a:
            laa, lpl = a["call_LAA"][:], a["call_LPL"][:]
            width = lpl.shape[2] if lpl.ndim == 3 else 1
            lpl = lpl.reshape(lpl.shape[0], lpl.shape[1], -1)
            laa = laa.reshape(laa.shape[0], laa.shape[1], -1)
            for v, (nalt, has_pl, tr) in enumerate(truth):
                for s, (gt, pl) in enumerate(tr):
                    alts = sorted({x for x in gt if x not in (None, 0)})
                    row = [int(x) for x in laa[v, s]]
                    gtz = [(-1 if x is None else x) for x in gt]
                    if carry is None and ctx.model.call(1702, [nalt, gtz, row]) != 1:
                        ctx.fail(dict(doc, record=v, sample=s), dict(gt=gt, laa=row), f"stored LAA of genotype {gt} is {row}")
                    got = [int(x) for x in lpl[v, s]]
                    want = ctx.model.call(1703, [ploidy, width, alts, [] if pl is None else [pl]])
                    if pl is None:
                        ok = all(x in (-1, -2) for x in got) and got[0] == -1
                    else:
                        ok = got == want
                    if not ok:
                        nloc = len(alts) + 1 if ploidy == 1 else (len(alts) + 1) * (len(alts) + 2) // 2
                        cls = "haploid_lpl_fill" if (ploidy == 1 and got[:nloc] == want[:nloc] and all(w == -2 for w in want[nloc:])) else None
                        ctx.fail(dict(doc, record=v, sample=s), {"class": cls, "gt": gt, "lpl": got, "expected": want},
                                 f"stored LPL of call {gt} (ploidy {ploidy}) is {got}, expected {want}")
    # ploidy 3 must be rejected: alone, before and AFTER diploid records of the same / another number of alleles
    hdr = hdr0
    dip1 = "chr1\t{pos}\t.\tA\tC\t.\tPASS\tDP=1\tGT:PL:AD\t0/1:1,2,3:1,2"
    dip2 = "chr1\t{pos}\t.\tA\tC,G\t.\tPASS\tDP=1\tGT:PL:AD\t1/2:1,2,3,4,5,6:1,2,3"
    tri1 = "chr1\t{pos}\t.\tA\tC\t.\tPASS\tDP=1\tGT:PL:AD\t0/0/1:11,0,13,14:1,2"
    tri2 = "chr1\t{pos}\t.\tA\tC,G\t.\tPASS\tDP=1\tGT:PL:AD\t0/1/2:1,2,3,4,5,6,7,8,9,10:1,2,3"
    layouts = {"alone": [tri2], "first": [tri1, dip1, dip2], "after-same-width": [dip1, tri1], "after-both": [dip1, dip2, tri2, dip1],
               "last": [dip2, dip1, dip2, tri1]}
    for label, lay in layouts.items():
        recs = [x.format(pos=10 + 5 * k) for k, x in enumerate(lay)]
        pth = vcfgen.make_indexed(d, "tri", vcfgen.vcf_text(hdr, recs, ("s0",)))
        out = os.path.join(d, "t.vcz")
        shutil.rmtree(out, ignore_errors=True)
        doc = dict(part="e2e", ploidy=3, layout=label)
        ctx.case(doc, nontrivial=True)
        ctx.count("triploid-layouts")
        try:
            vcf2zarr.convert([pth], out, worker_processes=0, local_alleles=True)
            ctx.fail(doc, {}, f"a triploid record ({label}) was localised instead of being rejected")
        except ValueError:
            pass
        except Exception as e:  # noqa: BLE001
            ctx.fail(doc, dict(error=type(e).__name__), "triploid record: unexpected exception class")
    shutil.rmtree(d, ignore_errors=True)


def run(ctx):
    part_a(ctx)
    part_b(ctx)


def replay(ctx, rep):
    c = rep["case"]
    if c.get("part") == "in-process":
        c = {k: v for k, v in c.items() if k != "sample"}
        ctx.case(c)
        run_variant(ctx, c)
    else:
        run(ctx)
