"""C18 correspondence: fault enumeration on real intermediate stores.

Stores exploded from generated VCFs (several partitions, small column chunks so that fields have
several chunks per partition).  Every data-bearing file (every field x partition x chunk, every
chunk_index, metadata.json) x {deleted, truncated to a shorter length: all lengths for small
files, boundary-biased samples (0, 1, multiples of 8, size-1, random) for larger ones}.  After each
damage: load the store, read the affected field three ways (.values, iter_values over the whole
column, a shuffled set of sub-ranges) and -- for a sample of the damages -- encode the store.
The model's prediction is always Error (theorem damage_detected); the real outcome must be an
exception: never the same or different values silently.
"""
import os
import pathlib
import shutil

import numpy as np

from lib import absvcf, pipeline, vcfgen


def snapshot_field(store, name):
    fld = store.fields[name]
    n = store.num_records
    a = [None if v is None else (v.dtype.str, v.shape, v.tolist()) for v in fld.values]
    b = [None if v is None else (v.dtype.str, v.shape, v.tolist()) for v in fld.iter_values(0, n)]
    c = []
    for lo, hi in ((0, max(1, n // 2)), (n // 2, n), (max(0, n - 1), n), (n // 3, max(n // 3 + 1, 2 * n // 3))):
        if lo < hi <= n:
            c.append([None if v is None else v.tolist() for v in fld.iter_values(lo, hi)])
    return a, b, c


def field_of(path, root):
    rel = path.relative_to(root).parts
    if rel[0] in ("INFO", "FORMAT"):
        return f"{rel[0]}/{rel[1]}"
    return rel[0]


def run(ctx):
    from bio2zarr import vcf2zarr
    from bio2zarr.vcf2zarr import icf as icf_mod

    r = ctx.rnd
    nstores = ctx.n(4, 16)
    for si in range(nstores):
        seed = ctx.seed * 31 + 500 + si
        case = absvcf.gen_case(seed)
        d = os.path.join(ctx.work, f"c18_{si}")
        os.makedirs(d)
        try:
            p = vcfgen.make_indexed(d, "in", absvcf.to_text(case), kind="tbi", lines_per_block=2)
            root = pathlib.Path(d) / "s.icf"
            pipeline.dexplode(str(root), [p], target_num_partitions=4, column_chunk_size=r.choice([0.0002, 0.0005]))
            ref_store = icf_mod.IntermediateColumnarFormat(root)
            ref = {name: snapshot_field(ref_store, name) for name in ref_store.fields}
            files = [q for q in sorted(root.rglob("*")) if q.is_file() and q.name != "header.txt"]
            if ctx.quick and len(files) > 160:
                # stratified: per field and partition one chunk index, the first data chunk and two later data chunks (state
                # carried over from the chunk read before only shows on those), then a random remainder
                groups = {}
                for q in files:
                    if q.name != "metadata.json":
                        groups.setdefault(q.parent, []).append(q)
                keep = [root / "metadata.json"]
                for pdir, qs in sorted(groups.items()):
                    if r.random() < 0.5 and len(groups) > 30:
                        continue
                    idx = [q for q in qs if q.name == "chunk_index"]
                    data = sorted((q for q in qs if q.name != "chunk_index"), key=lambda q: int(q.name))
                    keep += idx[:1] + data[:1] + (r.sample(data[1:], min(2, len(data) - 1)) if len(data) > 1 else [])
                rest = [q for q in files if q not in keep]
                files = sorted(set(keep + r.sample(rest, max(0, min(len(rest), 160 - len(keep))))))
            enc_budget = ctx.n(6, 60)
            # besides the random sample: one encode probe per field (every array encoder reads a
            # different field), for the first stores
            probed_fields = set() if si < ctx.n(2, 8) else None
            for q in files:
                data = q.read_bytes()
                size = len(data)
                if size <= 96 or not ctx.quick and size <= 4096:
                    lengths = list(range(size))
                else:
                    lengths = sorted({0, 1, 7, 8, 9, 16, 17, 24, 32, size // 2, size - 9, size - 8, size - 1} | {(r.randrange(size) // 8) * 8 for _ in range(4)} | {r.randrange(size) for _ in range(4)})
                    lengths = [x for x in lengths if 0 <= x < size]
                kind = "metadata" if q.name == "metadata.json" else ("chunk_index" if q.name == "chunk_index" else "chunk")
                for L in lengths + [None]:
                    if L is None:
                        q.unlink()
                    else:
                        q.write_bytes(data[:L])
                    doc = dict(store_seed=seed, file=str(q.relative_to(root)), kind=kind, size=size, damage=("deleted" if L is None else f"truncated to {L}"))
                    ctx.case(doc, nontrivial=True, sample=(len(ctx.samples) < 3 and kind == "chunk" and L is not None))
                    ctx.count(kind + (":deleted" if L is None else ":truncated"))
                    try:
                        st = icf_mod.IntermediateColumnarFormat(root)
                        if kind == "metadata":
                            out = "SAME" if st.num_records == ref_store.num_records else "DIFFERENT"
                        else:
                            name = field_of(q, root)
                            got = snapshot_field(st, name)
                            out = "SAME" if got == ref[name] else "DIFFERENT"
                    except BaseException as e:  # noqa: BLE001
                        out = "ERR"
                    if out != "ERR":
                        ctx.fail(doc, dict(outcome=out), f"{doc['file']} {doc['damage']}: reading the affected field raised no error ({out.lower()} values returned)")
                    elif (kind != "metadata" and probed_fields is not None and field_of(q, root) not in probed_fields and (L is None or (L is not None and L >= size // 2))) \
                            or (enc_budget > 0 and (L is None or L % 8 == 0) and r.random() < 0.15):
                        if kind != "metadata" and probed_fields is not None and field_of(q, root) not in probed_fields and (L is None or L >= size // 2):
                            probed_fields.add(field_of(q, root))
                        else:
                            enc_budget -= 1
                        outp = os.path.join(d, "enc.vcz")
                        shutil.rmtree(outp, ignore_errors=True)
                        try:
                            vcf2zarr.encode(str(root), outp, worker_processes=0)
                            ctx.fail(doc, {}, f"{doc['file']} {doc['damage']}: encoding the damaged store succeeded")
                        except BaseException:  # noqa: BLE001
                            pass
                        ctx.count("encode-probes")
                    q.write_bytes(data)
                    ctx.traces_validated += 1
        finally:
            shutil.rmtree(d, ignore_errors=True)


def replay(ctx, rep):
    run(ctx)
