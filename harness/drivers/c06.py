"""C06 correspondence: the distributed encode protocol under kills.

Same method as C05: every command (dencode partition j / finalise) runs as its own OS process,
a kill is injected before the k-th file-system mutation (optionally tearing the file whose
write-open immediately preceded it).  After every command the real directory tree is ABSTRACTED
to the model's state: wip metadata, .zmetadata, for every partition the directories wip_p<j> /
p<j> / stale_p<j> and their per-array entries (chunk files or variant-chunk directories: Absent /
Torn / Full by comparing bytes with an uninterrupted reference), the entries that have reached
wip/arrays/<a> or the final array, and whether each array has been renamed out of wip/.
  * un-killed partition commands: abs(after) must equal the model's transition on the paths the
    invariant speaks about; 'refused' must coincide;
  * every state must satisfy the model's invariant (J1-J3);
  * .zmetadata present => every array completely and correctly populated, no stray files;
  * finalise refuses while a partition is missing; after any history, re-running the interrupted
    partitions and finalise either yields exactly the reference store or (after a killed
    finalise) fails with an error -- never a silent partial result.
"""
import json
import os
import shutil
import subprocess
from concurrent.futures import ThreadPoolExecutor

import numpy as np

from drivers import c05
from lib.common import PY, REPO, VERIF

ENV = c05.ENV


def run_cmd(src, crash=None, log=None, root=None):
    return c05.run_cmd(src, crash=crash, log=log, root=root)


def tree_bytes(path):
    """bytes of a file, or a dict name -> tree for a directory"""
    if os.path.isdir(path):
        return {n: tree_bytes(os.path.join(path, n)) for n in sorted(os.listdir(path))}
    return open(path, "rb").read()


class Plan:
    def __init__(self, root, nparts):
        """root: a store in which every partition has been encoded and finalise has NOT run"""
        self.nparts = nparts
        pdir = os.path.join(root, "wip", "partitions")
        # arrays in the order finalise processes them (schema order)
        schema_order = [f["name"] for f in json.load(open(os.path.join(root, "wip", "metadata.json")))["schema"]["fields"]]
        present = set(os.listdir(os.path.join(pdir, "p0")))
        self.arrays = [a for a in schema_order if a in present] + sorted(present - set(schema_order))
        self.entries = {}  # (j, a) -> sorted entry names
        self.ref = {}  # (j, a, name) -> tree bytes
        for j in range(nparts):
            for a, arr in enumerate(self.arrays):
                d = os.path.join(pdir, f"p{j}", arr)
                names = sorted(n for n in os.listdir(d) if not n.startswith("."))
                self.entries[(j, a)] = names
                for n in names:
                    self.ref[(j, a, n)] = tree_bytes(os.path.join(d, n))
        self.nent = [[len(self.entries[(j, a)]) for a in range(len(self.arrays))] for j in range(nparts)]
        self.meta = open(os.path.join(root, "wip", "metadata.json"), "rb").read()
        # entry name -> (j, c) per array (chunk names are global)
        self.owner = {}
        for (j, a), names in self.entries.items():
            for c, n in enumerate(names):
                self.owner[(a, n)] = (j, c)

    def entry_state(self, path, key):
        if not os.path.exists(path):
            return 0
        return 2 if tree_bytes(path) == self.ref[key] else 1

    def abstract(self, root):
        st, stray = [], []
        wip = os.path.join(root, "wip")
        mp = os.path.join(wip, "metadata.json")
        if os.path.exists(mp):
            st.append([[0], 2 if open(mp, "rb").read() == self.meta else 1])
        if os.path.exists(os.path.join(root, ".zmetadata")):
            st.append([[1], 2])
        pdir = os.path.join(wip, "partitions")
        if os.path.isdir(pdir):
            known = set()
            for j in range(self.nparts):
                for code_d, code_e, prefix in ((2, 5, "wip_p"), (3, 6, "p"), (4, 7, "stale_p")):
                    d = os.path.join(pdir, f"{prefix}{j}")
                    known.add(f"{prefix}{j}")
                    if not os.path.isdir(d):
                        continue
                    st.append([[code_d, j], 2])
                    for a, arr in enumerate(self.arrays):
                        ad = os.path.join(d, arr)
                        if not os.path.isdir(ad):
                            continue
                        for n in os.listdir(ad):
                            if n.startswith(".z"):
                                continue
                            if (a, n) in self.owner and self.owner[(a, n)][0] == j:
                                c = self.owner[(a, n)][1]
                                st.append([[code_e, j, a, c], self.entry_state(os.path.join(ad, n), (j, a, n))])
                            else:
                                stray.append(os.path.relpath(os.path.join(ad, n), root))
            for n in os.listdir(pdir):
                if n not in known:
                    stray.append("wip/partitions/" + n)
        for a, arr in enumerate(self.arrays):
            final = os.path.join(root, arr)
            inwip = os.path.join(wip, "arrays", arr)
            if os.path.isdir(final):
                st.append([[9, a], 2])
            for d in (final, inwip):
                if not os.path.isdir(d):
                    continue
                for n in os.listdir(d):
                    if n.startswith(".z"):
                        continue
                    if (a, n) in self.owner:
                        j, c = self.owner[(a, n)]
                        st.append([[8, a, j, c], self.entry_state(os.path.join(d, n), (j, a, n))])
                    else:
                        stray.append(os.path.relpath(os.path.join(d, n), root))
        return sorted(st), stray


def snap(root):
    code = (
        "import sys, json, zarr, numpy as np\n"
        f"r = zarr.open({root!r}, mode='r')\nout = {{}}\n"
        "for k in sorted(r.array_keys()):\n    x = r[k][:]\n    x = x.view(np.int32) if x.dtype.kind == 'f' else x\n    out[k] = [str(r[k].dtype), x.tolist(), dict(r[k].attrs), list(r[k].chunks)]\n"
        "import os\nout['__files__'] = sorted(os.path.relpath(os.path.join(dp, f), %r) for dp, _, fs in os.walk(%r) for f in fs)\n"
        "out['__attrs__'] = {k: v for k, v in dict(r.attrs).items() if k != 'source'}\n"
        "print(json.dumps(out, sort_keys=True, default=str))" % (root, root)
    )
    p = subprocess.run([PY, "-c", code], env=ENV, capture_output=True, text=True, timeout=300)
    return p.stdout.strip() if p.returncode == 0 else None


RELEVANT = {0, 1, 3, 6, 8, 9}


def rel(st, codes=RELEVANT):
    return sorted(x for x in st if x[0][0] in codes)


def play(ctx, plan, base_dir, work, hist, ref_values, tag):
    problems = []
    d = os.path.join(work, tag)
    shutil.copytree(base_dir, d)
    root = os.path.join(d, "o.vcz")
    try:
        done = False
        for step_no, (cmd, crash) in enumerate(hist):
            if done:
                break
            before, _ = plan.abstract(root)
            if cmd[0] == 0:
                # init issued again on the existing path (another plan): must fail and leave the tree as it is
                icf_ = os.path.join(d, "s.icf")
                tree0 = {os.path.relpath(os.path.join(dp, f), root): os.path.getsize(os.path.join(dp, f)) for dp, _, fs in os.walk(root) for f in fs}
                rc, err = run_cmd(f"vcf2zarr.encode_init({icf_!r}, {root!r}, {cmd[1]}, variants_chunk_size={cmd[2]}, worker_processes=0)", root=root)
                tree1 = {os.path.relpath(os.path.join(dp, f), root): os.path.getsize(os.path.join(dp, f)) for dp, _, fs in os.walk(root) for f in fs}
                doc = dict(history=[[c, k] for c, k in hist], step=step_no)
                if rc == 0:
                    problems.append(("fail", doc, "encode init on an existing store was accepted (a command out of protocol order must fail and leave the data intact)"))
                elif tree0 != tree1:
                    problems.append(("fail", doc, "encode init on an existing store failed but changed it"))
                continue
            src = f"vcf2zarr.encode_partition({root!r}, {cmd[1]})" if cmd[0] == 1 else f"vcf2zarr.encode_finalise({root!r})"
            rc, err = run_cmd(src, crash=crash, root=root)
            after, stray = plan.abstract(root)
            doc = dict(history=[[c, k] for c, k in hist], step=step_no)
            killed = rc == 137
            if not killed:
                out = ctx.model.call(600, [plan.nent, before, list(cmd)])
                pred = sorted([p, v] for p, v in out[0] if v != 0)
                refused = bool(out[1])
                if refused != (rc != 0):
                    problems.append(("disagree", doc, f"command {cmd}: real {'failed' if rc else 'succeeded'}, model {'refuses' if refused else 'runs'}: {err[-150:]}"))
                elif cmd[0] == 1 and rel(pred) != rel(after):
                    diff = [x for x in rel(pred) + rel(after) if x not in rel(pred) or x not in rel(after)][:4]
                    problems.append(("disagree", doc, f"command {cmd}: state after differs from the model's transition: {diff}"))
                elif cmd[0] == 2 and rel(pred, {1, 6, 8, 9}) != rel(after, {1, 6, 8, 9}):
                    diff = [x for x in rel(pred, {1, 6, 8, 9}) + rel(after, {1, 6, 8, 9}) if x not in rel(pred, {1, 6, 8, 9}) or x not in rel(after, {1, 6, 8, 9})][:4]
                    problems.append(("disagree", doc, f"finalise: state after differs from the model's transition: {diff}"))
                if rc != 0 and cmd[0] == 1 and rel(before) != rel(after):
                    problems.append(("fail", doc, f"command {cmd} failed with an error but changed existing data"))
            inv_ok, fin_m, complete_m = ctx.model.call(601, [plan.nent, after])
            finished = os.path.exists(os.path.join(root, ".zmetadata"))
            if not inv_ok:
                problems.append(("fail", doc, f"after {'a kill in ' if killed else ''}command {cmd} (crash point {crash}) the store state violates the protocol invariant "
                                               "(a partition directory / array / consolidated metadata is in place while one of its chunks is missing or torn)"))
            if finished:
                vals = snap(root)
                if vals != ref_values:
                    problems.append(("fail", doc, f"after command {cmd} (crash point {crash}) the store carries consolidated metadata but its arrays differ from an uninterrupted run"))
                if stray:
                    problems.append(("fail", doc, f"finished store contains stray files {stray[:3]}"))
                leftovers = [n for n in os.listdir(root) if n == "wip"]
                done = True
        # recovery
        doc = dict(history=[[c, k] for c, k in hist], step="recovery")
        if not os.path.exists(os.path.join(root, ".zmetadata")):
            st, _ = plan.abstract(root)
            finalise_started = any(x[0][0] in (8, 9) for x in st)
            if not finalise_started:
                for j in range(plan.nparts):
                    rc, err = run_cmd(f"vcf2zarr.encode_partition({root!r}, {j})")
                    if rc != 0:
                        problems.append(("fail", doc, f"re-running partition {j} after the history failed: {err[-150:]}"))
                rc, err = run_cmd(f"vcf2zarr.encode_finalise({root!r})")
                vals = snap(root) if os.path.exists(os.path.join(root, ".zmetadata")) else None
                _, stray = plan.abstract(root)
                if rc != 0 or vals != ref_values or stray:
                    problems.append(("fail", doc, f"re-running the partitions and finalise does not reproduce the store of an uninterrupted run (rc={rc}, stray={stray[:2]})"))
            else:
                # a killed finalise: the re-run either completes identically or fails with an error
                rc, err = run_cmd(f"vcf2zarr.encode_finalise({root!r})")
                if os.path.exists(os.path.join(root, ".zmetadata")):
                    if snap(root) != ref_values:
                        problems.append(("fail", doc, "re-running a killed finalise produced a finished store that differs from an uninterrupted run"))
                elif rc == 0:
                    problems.append(("fail", doc, "re-running a killed finalise reported success without producing a finished store"))
    except Exception as e:  # noqa: BLE001
        problems.append(("crash", dict(history=[[c, k] for c, k in hist]), f"{type(e).__name__}: {e}"))
    finally:
        shutil.rmtree(d, ignore_errors=True)
    return problems


def mutation_log(base_dir, work, src_of, tag, prefix=()):
    """the mutations (index, operation, argument) a command issues after the given prefix of commands (tuples = killed commands)"""
    d = os.path.join(work, tag)
    shutil.copytree(base_dir, d)
    root = os.path.join(d, "o.vcz")
    for s in prefix:
        if isinstance(s, tuple):
            run_cmd(s[0].format(root=root), crash=s[1], root=root)
        else:
            run_cmd(s.format(root=root))
    log = os.path.join(d, "audit.log")
    run_cmd(src_of.format(root=root), log=log, root=root)
    out = []
    if os.path.exists(log):
        for line in open(log):
            f = line.rstrip("\n").split("\t")
            if f[0].isdigit():
                out.append((int(f[0]), f[1], f[2].replace(root, "")))
    shutil.rmtree(d, ignore_errors=True)
    return out


def count_mutations(base_dir, work, src_of, tag, prefix=()):
    d = os.path.join(work, tag)
    shutil.copytree(base_dir, d)
    root = os.path.join(d, "o.vcz")
    for s in prefix:
        if isinstance(s, tuple):
            run_cmd(s[0].format(root=root), crash=s[1], root=root)      # a killed command of the prefix
        else:
            run_cmd(s.format(root=root))
    log = os.path.join(d, "audit.log")
    run_cmd(src_of.format(root=root), log=log, root=root)
    n = sum(1 for _ in open(log)) if os.path.exists(log) else 0
    shutil.rmtree(d, ignore_errors=True)
    return n


def run(ctx):
    r = ctx.rnd
    base = os.path.join(ctx.work, "c06base")
    os.makedirs(base)
    src = c05.make_input(base, r)
    icf = os.path.join(base, "s.icf")
    root = os.path.join(base, "o.vcz")
    rc, err = run_cmd(f"vcf2zarr.explode({icf!r}, [{src!r}], worker_processes=0)\nvcf2zarr.encode_init({icf!r}, {root!r}, 3, variants_chunk_size=4, samples_chunk_size=2, worker_processes=0)")
    assert rc == 0, err
    nparts = len(json.load(open(os.path.join(root, "wip/metadata.json")))["partitions"])
    d = os.path.join(ctx.work, "c06ref")
    shutil.copytree(base, d)
    rr = os.path.join(d, "o.vcz")
    for j in range(nparts):
        assert run_cmd(f"vcf2zarr.encode_partition({rr!r}, {j})")[0] == 0
    plan = Plan(rr, nparts)
    assert run_cmd(f"vcf2zarr.encode_finalise({rr!r})")[0] == 0
    ref_values = snap(rr)
    shutil.rmtree(d, ignore_errors=True)
    ctx.distribution["partitions"] = nparts
    ctx.distribution["arrays"] = len(plan.arrays)
    P = "vcf2zarr.encode_partition({root!r}, %d)"
    n_fresh = count_mutations(base, ctx.work, P % 1, "cnt1")
    n_rerun = count_mutations(base, ctx.work, P % 1, "cnt2", prefix=[P % 1])
    n_fin = count_mutations(base, ctx.work, "vcf2zarr.encode_finalise({root!r})", "cnt3", prefix=[P % j for j in range(nparts)])
    ctx.distribution["mutation_points"] = dict(partition_fresh=n_fresh, partition_rerun=n_rerun, finalise=n_fin)
    tears = [None, "0", "half"]

    def crash(k, tear):
        return f"{k}" if tear is None else f"{k}:{tear}"

    allp = [((1, j), None) for j in range(nparts)]
    hists = []
    pts = lambda n, m: list(range(n)) if not ctx.quick else sorted(set(r.sample(range(n), min(n, m)) + [0, 1, n - 2, n - 1]))  # noqa: E731
    for k in pts(n_fresh, 12):
        t = r.choice(tears)
        hists.append([((1, 0), None), ((1, 1), crash(k, t)), ((1, 2), None), ((2,), None)])
    for k in pts(n_rerun, 16):
        t = r.choice(tears)
        hists.append(allp + [((1, 1), crash(k, t)), ((2,), None)])
    # the last mutations of a re-run (the directory swap) exhaustively
    for k in range(max(0, n_rerun - 12), n_rerun):
        hists.append(allp + [((1, 1), crash(k, None)), ((2,), None)])
    for k in pts(n_fin, 14):
        t = r.choice(tears)
        hists.append(allp + [((2,), crash(k, t)), ((2,), None)])
    # two kills in a row: a re-run killed inside the directory swap (after p<j> was moved aside), then the NEXT attempt of the same
    # partition killed too -- in particular while it removes the moved-aside copy, p<j> still missing -- then finalise (which must
    # refuse) and the recovery
    rerun_log = mutation_log(base, ctx.work, P % 1, "cnt4", prefix=[P % j for j in range(nparts)])
    import re
    swap = [i for i, op, arg in rerun_log if op == "os.rename" and re.search(r"partitions/(wip_p|p)\d+ -> \S*partitions/(stale_p|p)\d+$", arg)]   # p1 -> stale_p1, wip_p1 -> p1
    ctx.distribution["swap_window"] = swap
    for k1 in sorted(set(swap + [x + 1 for x in swap])):
        log2 = mutation_log(base, ctx.work, P % 1, f"cnt5_{k1}", prefix=[P % j for j in range(nparts)] + [(P % 1, crash(k1, None))])
        inside = [i for i, op, arg in log2 if "stale_p" in arg]          # the removal of the moved-aside copy, file by file
        other = [i for i, op, arg in log2 if "stale_p" not in arg]
        pick = (inside + other[-6:]) if not ctx.quick else sorted(set(r.sample(inside, min(len(inside), 6)) + inside[:1] + inside[-2:] + other[-2:]))
        for k2 in pick:
            hists.append(allp + [((1, 1), crash(k1, None)), ((1, 1), crash(k2, r.choice(tears))), ((2,), None)])
    for _ in range(ctx.n(24, 300)):
        h = []
        kills = 0
        for _ in range(r.randint(1, 7)):
            c = (2,) if r.random() < 0.25 else (1, r.randrange(nparts + (1 if r.random() < 0.05 else 0)))
            k = None
            if kills < 2 and r.random() < 0.3:
                kills += 1
                k = crash(r.randrange(max(n_rerun, n_fin)), r.choice(tears))
            h.append((c, k))
        hists.append(h)

    # ---- init issued again at several stages ----
    for args in ((3, 4), (2, 4), (3, 2)):
        hists.append([((0,) + args, None)] + allp + [((2,), None)])
        hists.append([((1, 0), None), ((0,) + args, None), ((1, 1), None), ((1, 2), None), ((2,), None)])
    hists.append(allp + [((0, 3, 4), None), ((2,), None)])
    hists.append(allp + [((2,), None), ((0, 2, 4), None)])

    # ---- kills inside init: afterwards the partitions and finalise are attempted as they are ----
    pre_init = os.path.join(ctx.work, "c06pre")
    os.makedirs(pre_init)
    shutil.copytree(icf, os.path.join(pre_init, "s.icf"))
    INIT = "vcf2zarr.encode_init({icf!r}, {root!r}, 3, variants_chunk_size=4, samples_chunk_size=2, worker_processes=0)"
    dcnt = os.path.join(ctx.work, "cntinit")
    shutil.copytree(pre_init, dcnt)
    logp = os.path.join(dcnt, "audit.log")
    run_cmd(INIT.format(icf=os.path.join(dcnt, "s.icf"), root=os.path.join(dcnt, "o.vcz")), log=logp, root=os.path.join(dcnt, "o.vcz"))
    n_init = sum(1 for _ in open(logp))
    shutil.rmtree(dcnt, ignore_errors=True)
    ctx.distribution["mutation_points"]["init"] = n_init
    init_pts = list(range(n_init)) if not ctx.quick else sorted(set(r.sample(range(n_init), min(n_init, 16)) + list(range(max(0, n_init - 14), n_init))))
    init_jobs = [(k, t) for k in init_pts for t in ((None, "half") if k >= n_init - 14 else (r.choice(tears),))]

    def init_job(kt):
        k, t = kt
        probs = []
        dd = os.path.join(ctx.work, f"init{k}{t}")
        shutil.copytree(pre_init, dd)
        ri, ro = os.path.join(dd, "s.icf"), os.path.join(dd, "o.vcz")
        doc = dict(history=[["init", crash(k, t)]] + [[[1, j], None] for j in range(nparts)] + [[[2], None]])
        try:
            rc, _ = run_cmd(INIT.format(icf=ri, root=ro), crash=crash(k, t), root=ro)
            for j in range(nparts):
                run_cmd(f"vcf2zarr.encode_partition({ro!r}, {j})")
            run_cmd(f"vcf2zarr.encode_finalise({ro!r})")
            if os.path.exists(os.path.join(ro, ".zmetadata")):
                vals = snap(ro)
                if vals != ref_values:
                    probs.append(("fail", doc, f"init killed at mutation {k} (tear {t}), then every partition and finalise: the store presents as finished "
                                               "but differs from an uninterrupted run (arrays, attributes or files)"))
        except Exception as e:  # noqa: BLE001
            probs.append(("crash", doc, f"{type(e).__name__}: {e}"))
        finally:
            shutil.rmtree(dd, ignore_errors=True)
        return doc, probs

    with ThreadPoolExecutor(max_workers=14) as ex:
        for doc, probs in ex.map(init_job, init_jobs):
            ctx.case(doc, nontrivial=True)
            ctx.count("init-kills")
            ctx.traces_validated += 1
            for kind, dd, msg in probs:
                (ctx.fail(dd, {}, msg) if kind == "fail" else ctx.disagree(dd, "harness", "", msg))
    shutil.rmtree(pre_init, ignore_errors=True)

    def job(i):
        return play(ctx, plan, base, ctx.work, hists[i], ref_values, f"h{i}")

    with ThreadPoolExecutor(max_workers=14) as ex:
        results = list(ex.map(job, range(len(hists))))
    for h, probs in zip(hists, results):
        doc = dict(history=[[list(c), k] for c, k in h])
        kills = sum(1 for _, k in h if k is not None)
        ctx.case(doc, nontrivial=kills > 0, sample=(len(ctx.samples) < 3 and kills > 0))
        ctx.count(f"kills:{kills}")
        ctx.traces_validated += 1
        for kind, dd, msg in probs:
            if kind == "disagree":
                ctx.disagree(dd, "real", "model", msg)
            elif kind == "fail":
                ctx.fail(dd, {}, msg)
            else:
                ctx.disagree(dd, "harness", "", "history runner crashed: " + msg)
    shutil.rmtree(base, ignore_errors=True)


def replay(ctx, rep):
    run(ctx)
