"""Shared helpers: paths, s-expression wire format, extracted-model process, case log."""
import hashlib
import json
import os
import random
import subprocess
import sys
import time

VERIF = os.environ.get("VERIF_ROOT") or os.path.dirname(os.path.dirname(os.path.dirname(os.path.abspath(__file__))))
REPO = os.environ.get("VERIF_REPO", "/repo")
COQ = os.path.join(VERIF, "coq")
EXTRACT = os.path.join(VERIF, "extract")
MODEL_BIN = os.path.join(EXTRACT, "model")
def genmodel_bin(unit):
    return os.path.join(EXTRACT, "gen", unit or "none", "genmodel")
PY = "/venv/bin/python"


def to_sx(o):
    if o is None:
        return "()"
    if isinstance(o, bool):
        return "1" if o else "0"
    if isinstance(o, int):
        return str(o)
    if isinstance(o, (list, tuple)):
        return "(" + " ".join(to_sx(x) for x in o) + ")"
    if hasattr(o, "item"):
        return to_sx(o.item())
    if hasattr(o, "tolist"):
        return to_sx(o.tolist())
    raise TypeError(f"to_sx: {type(o)}")


def opt(v):
    """Python optional int -> wire option"""
    return [] if v is None else [int(v)]


def from_sx(s):
    s = s.strip()
    pos = 0
    n = len(s)

    def item():
        nonlocal pos
        while pos < n and s[pos] == " ":
            pos += 1
        if s[pos] == "(":
            pos += 1
            out = []
            while True:
                while pos < n and s[pos] == " ":
                    pos += 1
                if s[pos] == ")":
                    pos += 1
                    return out
                out.append(item())
        j = pos
        while pos < n and s[pos] not in " ()":
            pos += 1
        return int(s[j:pos])

    return item()


def is_err(v):
    return isinstance(v, list) and len(v) == 2 and v[0] == -999


class Model:
    """Batch interface to the extracted OCaml model (one process per batch)."""

    def __init__(self, binary=MODEL_BIN):
        self.binary = binary

    def batch(self, calls):
        """calls: list of (op:int, arg:python object) -> list of decoded results"""
        if not calls:
            return []
        inp = "\n".join(f"{op} {to_sx(arg)}" for op, arg in calls) + "\n"
        r = subprocess.run(
            ["bash", "-c", f"ulimit -s unlimited 2>/dev/null; exec {self.binary}"], input=inp, capture_output=True, text=True
        )
        lines = r.stdout.splitlines()
        if r.returncode != 0 or len(lines) != len(calls):
            raise RuntimeError(f"extracted model failed: rc={r.returncode} {len(lines)}/{len(calls)} lines; {r.stderr[-400:]}")
        return [from_sx(l) for l in lines]

    def call(self, op, arg):
        return self.batch([(op, arg)])[0]


def case_hash(doc):
    return hashlib.sha1(json.dumps(doc, sort_keys=True, default=str).encode()).hexdigest()[:16]


class Ctx:
    """What a correspondence driver gets, and where it records what it did."""

    def __init__(self, pid, tier, seed, work, genextract=None):
        self.pid = pid
        self.tier = tier
        self.seed = seed
        self.rnd = random.Random(seed)
        self.work = work
        self.model = Model()
        self.genmodel = Model(genmodel_bin(genextract))  # the translator's output for this property's unit, extracted
        self.evaluations = 0
        self.hashes = set()
        self.nontrivial = set()
        self.samples = []
        self.disagreements = []  # model != implementation  (tie broken)
        self.failures = []  # property fails on the implementation (violation with replay)
        self.notes = []
        self.distribution = {}
        self.traces_validated = 0
        self.t0 = time.time()
        self.tie_ok = True  # set by check.py from translator/coq status
        self.tie_reasons = []

    @property
    def quick(self):
        return self.tier == "quick"

    def n(self, quick, thorough):
        return quick if self.quick else thorough

    def count(self, key, k=1):
        self.distribution[key] = self.distribution.get(key, 0) + k

    def case(self, doc, nontrivial=True, sample=False):
        self.evaluations += 1
        h = case_hash(doc)
        self.hashes.add(h)
        if nontrivial:
            self.nontrivial.add(h)
        if sample and len(self.samples) < 4:
            self.samples.append(doc)
        return h

    def disagree(self, case, impl, model, what=""):
        self.disagreements.append(dict(case=case, implementation=impl, model=model, what=what))

    def fail(self, case, detail, what=""):
        self.failures.append(dict(case=case, detail=detail, what=what))

    def note(self, s):
        self.notes.append(s)
        print("note:", s, flush=True)


def run(cmd, timeout=None, env=None, cwd=None, check=False):
    e = dict(os.environ)
    if env:
        e.update(env)
    return subprocess.run(cmd, capture_output=True, text=True, timeout=timeout, env=e, cwd=cwd, check=check)
