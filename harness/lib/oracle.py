"""Value-level oracle shared by C01 / C02 / C03: an abstract VCF (lib.absvcf case document) is
sent to the extracted reference encoder Model.Spec.spec_encode; real stores are read back and
compared array by array (shape, dtype, every cell except the ones the specification marks as
not determined by the input)."""
import struct

import numpy as np

DONTCARE = -777777777
TY = {"Integer": 0, "Float": 1, "Flag": 2, "Character": 3, "String": 4}
DT = {"int8": 1, "int16": 2, "int32": 4, "int64": 8, "float32": 14, "bool": 10, "<U1": 11, "object": 12}
FIXED = ["variant_contig", "variant_position", "variant_length", "variant_id", "variant_id_mask", "variant_allele",
         "variant_quality", "variant_filter", "call_genotype", "call_genotype_phased", "call_genotype_mask"]


def f32bits(x):
    return struct.unpack("<I", struct.pack("<f", x))[0]


class Intern:
    def __init__(self):
        self.ids = {".": 0, "": 1}

    def __call__(self, s):
        s = str(s)
        if s not in self.ids:
            self.ids[s] = len(self.ids) + 10
        return self.ids[s]


def num_code(n):
    return {"A": -2, "R": -1, "G": -3, ".": -4}.get(n, int(n) if n.isdigit() else -4)


def canonical_filters(case):
    return ["PASS"] + [f for f in case["hdr_filters"] if f != "PASS"]


def enc_val(t, v, intern):
    if v is None:
        return []
    if t == "Integer":
        return [int(v)]
    if t == "Float":
        return [f32bits(v)]
    return [intern(v)]


def effective_fmt(r, k, s):
    """the value of FORMAT key k for sample s after dropped trailing keys"""
    keys = (["GT"] if r["gt"] is not None else []) + [kk for kk, _, _ in r["fmt_keys"]]
    idx = keys.index(k)
    d = r["drop"][s]
    if d and len(keys) - d >= 1 and idx >= len(keys) - d:
        return None
    return r["fmt"][k][s]


def case_to_sx(case, intern):
    filters = canonical_filters(case)
    ns = len(case["samples"])
    hdr = [len(case["contigs"]), len(filters), ns, [[num_code(n), TY[t]] for _, n, t in case["infos"]],
           [[num_code(n), TY[t]] for _, n, t in case["fmts"]], 1 if case["has_gt"] else 0]
    recs = []
    for r in case["recs"]:
        info = []
        for k, n, t in case["infos"]:
            if k not in r["info"]:
                info.append([])
            elif r["info"][k] is True:
                info.append([1])
            else:
                info.append([2, [enc_val(t, x, intern) for x in r["info"][k]]])
        fmt = []
        for k, n, t in case["fmts"]:
            if ns == 0 or k not in r["fmt"]:
                fmt.append([])
            else:
                per = []
                for s in range(ns):
                    v = effective_fmt(r, k, s)
                    per.append([] if v is None else [[enc_val(t, x, intern) for x in v]])
                fmt.append([1, per])
        gt = []
        if r["gt"] is not None and ns > 0:
            gt = [[[[] if a is None else [a] for a in al], 1 if ph else 0] for al, ph in r["gt"]]
            gt = [gt]
        recs.append([r["contig"], r["pos"], [] if r["id"] is None else [intern(r["id"])], intern(r["ref"]), len(r["ref"]),
                     [intern(a) for a in r["alts"]], [] if r["qual"] is None else [f32bits(r["qual"])],
                     [] if r["filters"] is None else [[filters.index(f) for f in r["filters"]]], info, fmt, gt])
    return [hdr, recs]


def array_name(case, name_sx):
    if name_sx[0] == 0:
        return FIXED[name_sx[1]]
    if name_sx[0] == 1:
        return "variant_" + case["infos"][name_sx[1]][0]
    return "call_" + case["fmts"][name_sx[1]][0]


def spec_arrays(ctx, case, intern):
    """name -> (dtype code, shape, flat values) from the extracted reference encoder"""
    out = ctx.model.call(100, case_to_sx(case, intern))
    if out[0] != 1:
        return None
    return {array_name(case, a[0]): (a[1], a[2], a[3]) for a in out[1]}


def read_store(path, intern):
    import zarr

    root = zarr.open(path, mode="r")
    out = {}
    for k in root.array_keys():
        a = root[k]
        x = a[:]
        if x.dtype.kind == "f":
            vals = (x.view(np.int32).astype(np.int64) & 0xFFFFFFFF).reshape(-1).tolist()
        elif x.dtype.kind == "b":
            vals = x.astype(np.int64).reshape(-1).tolist()
        elif x.dtype.kind in "iu":
            vals = x.astype(np.int64).reshape(-1).tolist()
        else:
            vals = [intern(v) for v in x.reshape(-1).tolist()]
        dt = DT.get(str(a.dtype), DT.get(a.dtype.str, str(a.dtype)))
        out[k] = (dt, list(a.shape), vals)
    return out, root


def compare(case, spec, store, skip_dtype=("call_genotype",)):
    """list of (kind, array, detail)"""
    problems = []
    data = {k: v for k, v in store.items() if k not in ("region_index", "contig_id", "contig_length", "filter_id", "sample_id")}
    if set(data) != set(spec):
        problems.append(("ARRAYS", sorted(set(data) ^ set(spec)), ""))
    for k in sorted(set(data) & set(spec)):
        gdt, gshape, gvals = data[k]
        sdt, sshape, svals = spec[k]
        if gshape != sshape:
            problems.append(("SHAPE", k, f"stored {gshape}, expected {sshape}"))
            continue
        if gdt != sdt and k not in skip_dtype:
            problems.append(("DTYPE", k, f"stored {gdt}, expected {sdt}"))
        for i, (g, w) in enumerate(zip(gvals, svals)):
            if w != DONTCARE and g != w:
                problems.append(("VALUE", k, f"cell {i}: stored {g}, expected {w}"))
                break
    return problems


def header_problems(case, root):
    """contigs / filters / samples / header carried over"""
    problems = []
    if list(root["contig_id"][:]) != [c for c, _ in case["contigs"]]:
        problems.append(("HEADER", "contig_id", str(list(root["contig_id"][:]))))
    # htslib / cyvcf2 report a declared length of 0 like an absent one: only positive lengths are determined
    if all(l for _, l in case["contigs"]):
        if "contig_length" not in root or root["contig_length"][:].tolist() != [l for _, l in case["contigs"]]:
            problems.append(("HEADER", "contig_length", ""))
    elif "contig_length" in root:
        # partly declared lengths: if the array is there it has one entry per contig and the declared ones are right
        got = root["contig_length"][:].tolist()
        if len(got) != len(case["contigs"]) or any(l and g != l for g, (_, l) in zip(got, case["contigs"])):
            problems.append(("HEADER", "contig_length", str(got)))
    if list(root["filter_id"][:]) != canonical_filters(case):
        problems.append(("HEADER", "filter_id", str(list(root["filter_id"][:]))))
    if list(root["sample_id"][:]) != list(case["samples"]):
        problems.append(("HEADER", "sample_id", str(list(root["sample_id"][:]))))
    hdr = root.attrs.get("vcf_header", "")
    pos = 0
    for k, n, t in case["infos"]:
        needle = f"##INFO=<ID={k},"
        i = hdr.find(needle, pos)
        if i < 0:
            problems.append(("HEADER", "vcf_header", f"INFO line of {k} missing or out of order"))
            break
        pos = i
    return problems
