"""VCF text writer, BGZF block writer, htslib indexing (all offline, via pysam)."""
import os
import struct
import zlib

import pysam
import pysam.bcftools


def write_vcf(path, header_lines, records, samples=()):
    with open(path, "w") as f:
        f.write(vcf_text(header_lines, records, samples))


def vcf_text(header_lines, records, samples=()):
    out = ["##fileformat=VCFv4.3"]
    out += list(header_lines)
    cols = ["#CHROM", "POS", "ID", "REF", "ALT", "QUAL", "FILTER", "INFO"]
    if samples:
        cols += ["FORMAT"] + list(samples)
    out.append("\t".join(cols))
    out += list(records)
    return "\n".join(out) + "\n"


EOF_BLOCK = bytes.fromhex("1f8b08040000000000ff0600424302001b0003000000000000000000")


def bgzf_block(data: bytes) -> bytes:
    assert len(data) <= 65280
    c = zlib.compressobj(6, zlib.DEFLATED, -15)
    comp = c.compress(data) + c.flush()
    bsize = len(comp) + 25
    hdr = struct.pack("<BBBBIBBHBBHH", 0x1F, 0x8B, 8, 4, 0, 0, 0xFF, 6, 66, 67, 2, bsize)
    return hdr + comp + struct.pack("<II", zlib.crc32(data), len(data))


def write_bgzf(path, text: str, lines_per_block=5):
    """header in its own block(s); then every `lines_per_block` record lines start a new block"""
    lines = text.encode().splitlines(keepends=True)
    hdr = [l for l in lines if l.startswith(b"#")]
    body = [l for l in lines if not l.startswith(b"#")]
    with open(path, "wb") as f:
        buf = b"".join(hdr)
        for i in range(0, len(buf), 60000):
            f.write(bgzf_block(buf[i : i + 60000]))
        for i in range(0, len(body), lines_per_block):
            chunk = b"".join(body[i : i + lines_per_block])
            for j in range(0, len(chunk), 60000):
                f.write(bgzf_block(chunk[j : j + 60000]))
        f.write(EOF_BLOCK)


def make_indexed(workdir, name, text, kind="tbi", min_shift=14, bcf=False, lines_per_block=None):
    """Write `text` as <name>.vcf.gz (or .bcf) in workdir, index it with htslib, return the
    data path.  kind in {tbi, csi}.  lines_per_block -> own BGZF writer (small blocks)."""
    vcf = os.path.join(workdir, name + ".vcf")
    gz = vcf + ".gz"
    for stale in (gz + ".tbi", gz + ".csi", os.path.join(workdir, name + ".bcf.csi"), os.path.join(workdir, name + ".bcf")):
        if os.path.exists(stale):
            os.remove(stale)  # a leftover index of the other kind would be picked up first
    if lines_per_block:
        write_bgzf(gz, text, lines_per_block)
    else:
        with open(vcf, "w") as f:
            f.write(text)
        pysam.tabix_compress(vcf, gz, force=True)
        os.remove(vcf)
    if bcf:
        out = os.path.join(workdir, name + ".bcf")
        pysam.bcftools.view("--no-version", "-O", "b", "-o", out, gz, catch_stdout=False)
        pysam.bcftools.index("-f", "-m", str(min_shift), out, catch_stdout=False)
        os.remove(gz)
        return out
    if kind == "tbi":
        pysam.bcftools.index("-f", "-t", gz, catch_stdout=False)
    else:
        pysam.bcftools.index("-f", "-c", "-m", str(min_shift), gz, catch_stdout=False)
    return gz


def index_path(data_path):
    for suf in (".tbi", ".csi"):
        if os.path.exists(data_path + suf):
            return data_path + suf
    raise FileNotFoundError(data_path)


def write_bgzf_bytes(path, raw: bytes):
    with open(path, "wb") as f:
        for i in range(0, len(raw), 60000):
            f.write(bgzf_block(raw[i : i + 60000]))
        f.write(EOF_BLOCK)


def strip_index_counts(model, idx_path):
    """Rewrite a .tbi/.csi without its pseudo-bins (an old-style index that carries no
    per-contig record counts), through the model's independent serialiser."""
    import gzip

    raw = gzip.open(idx_path).read()
    if idx_path.endswith(".tbi"):
        m = model.call(901, list(raw))
        _, hdr8, names, bins, linear, counts, nnc = m
        contigs = [[[b for b in bs if b[0] != 37450], li] for bs, li in zip(bins, linear)]
        out = model.call(903, [hdr8[1:7], names, contigs, [nnc]])
    else:
        m = model.call(900, list(raw))
        _, ms, depth, aux, bins, counts, nnc = m
        pseudo = ((1 << (depth + 1) * 3) - 1) // 7 + 1
        out = model.call(902, [ms, depth, aux, [[b for b in bs if b[0] != pseudo] for bs in bins], [nnc]])
    write_bgzf_bytes(idx_path, bytes(out[0]))
