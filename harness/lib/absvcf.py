"""Abstract VCF generator (every Type x Number x missingness combination, boundary values,
mixed ploidy / phasing, filters, duplicate positions) and its text writer.  Floats are
printed with 9 significant digits from float32 patterns so that text -> float32 is exact.
Derived from the design-phase probe probes/e2e_value_oracle_probe.py (validated on 2600
files against the real converter)."""
import math
import random
import struct

from . import vcfgen

F32_MISSING, F32_FILL = 0x7F800001, 0x7F800002
INT_BOUNDS = [0, 1, -1, -2, -3, 126, 127, 128, -127, -128, -129, 32766, 32767, 32768, -32768, -32769, 2**31 - 1, -2147483640, 5, 17, 100]
F32_POOL = [0.0, 1.0, -1.0, 0.5, 1.5, 0.1, 3.14159274, 1e-38, 1e-45, 3.4028235e38, -3.4028235e38, 123456.789, float("inf"), float("-inf"), 2.5e-7]

def f32bits(x):
    return struct.unpack("<I", struct.pack("<f", x))[0]

def f32str(x):
    if math.isinf(x): return "inf" if x > 0 else "-inf"
    v = struct.unpack("<f", struct.pack("<f", x))[0]
    return "%.9g" % v

def min_int_dtype(lo, hi):
    for t, b in (("i1", 7), ("i2", 15), ("i4", 31), ("i8", 63)):
        if -(1 << b) <= lo and hi <= (1 << b) - 1: return t
    raise OverflowError

TYPES = ["Integer", "Float", "Character", "String", "Flag"]

def number_count(n, nalt, rnd, ploidy=2):
    if n == "0": return 0
    if n == "1": return 1
    if n == "2": return 2
    if n == "3": return 3
    if n == "A": return nalt
    if n == "R": return nalt + 1
    if n == "G": return (nalt + 1) * (nalt + 2) // 2
    return rnd.randint(1, 4)

def gen_scalar(t, rnd):
    if t == "Integer": return rnd.choice(INT_BOUNDS) if rnd.random() < 0.5 else rnd.randint(-300, 300)
    if t == "Float": return rnd.choice(F32_POOL)
    if t == "Character": return rnd.choice("abcXYZ019")
    return rnd.choice(["s", "foo", "Bar_1", "x-y", "longer_string_value", "0", "A|B"])

def _gen_id(rnd, c, pos):
    """an ID: mostly rs numbers; sometimes a `;`-separated list, sometimes a name carrying a comma (plink2-style
    chrom:pos:ref:alt1,alt2 names for multi-allelic sites) -- the VCF grammar forbids only white space and `;` inside one ID"""
    k = rnd.random()
    if k < 0.7:
        return "rs%d" % rnd.randint(1, 99)
    if k < 0.85:
        return "rs%d;rs%d" % (rnd.randint(1, 99), rnd.randint(100, 199))
    return "%d:%d:A:C,T" % (c, pos)


def gen_case(seed, overlong=0.0):
    """overlong: probability that a fixed-Number field carries one value more than declared
    (htslib and cyvcf2 pass such vectors through unchanged)."""
    rnd = random.Random(seed)
    ncontigs = rnd.randint(1, 4)
    with_len = rnd.random() < 0.7
    contigs = [("ctg%d" % i if rnd.random() < 0.7 else "%d" % (i + 1), 1000000 + i if with_len else None) for i in range(ncontigs)]
    # some headers declare a length for only part of their contigs (separate stream: the other choices stay as they were)
    rnd2 = random.Random(seed * 7919 + 13)
    if with_len and ncontigs > 1 and rnd2.random() < 0.35:
        for i in rnd2.sample(range(ncontigs), rnd2.randint(1, ncontigs - 1)):
            contigs[i] = (contigs[i][0], None)
    if with_len and rnd2.random() < 0.2:
        i0 = rnd2.randrange(ncontigs)
        if contigs[i0][1] is not None:
            contigs[i0] = (contigs[i0][0], 0)      # ##contig=<ID=..,length=0> is a declared length too
    used = sorted(rnd.sample(range(ncontigs), rnd.randint(1, ncontigs)))
    filters = ["PASS"] + ["f%d" % i for i in range(rnd.randint(0, 3))]
    pass_pos = rnd.randint(0, len(filters) - 1)   # header order may put PASS anywhere
    hdr_filters = filters[1:]; hdr_filters.insert(pass_pos, "PASS")
    ns = rnd.randint(0, 4)
    samples = ["S%d" % i for i in range(ns)]
    infos, fmts = [], []
    for i in range(rnd.randint(0, 6)):
        t = rnd.choice(TYPES)
        n = "0" if t == "Flag" else rnd.choice(["1", "2", "A", "R", "G", ".", "3"])
        infos.append(("I%d%s" % (i, t[0]), n, t))
    has_gt = ns > 0 and rnd.random() < 0.8
    if ns > 0:
        for i in range(rnd.randint(0, 5)):
            t = rnd.choice(TYPES[:4])
            n = rnd.choice(["1", "2", "A", "R", "G", ".", "3"])
            fmts.append(("F%d%s" % (i, t[0]), n, t))
        if not fmts: has_gt = True
    gt_always = True or rnd.random() < 0.8      # most files carry GT in every record (records without GT hit F10)
    max_ploidy = rnd.choice([1, 2, 2, 2, 3])
    recs = []
    for c in used:
        pos = rnd.randint(1, 200)
        for _ in range(rnd.randint(1, 12)):
            nalt = rnd.choice([0, 1, 1, 1, 2, 2, 3])
            r = dict(contig=c, pos=pos, id=None if rnd.random() < 0.5 else _gen_id(rnd, c, pos),
                     ref="".join(rnd.choice("ACGT") for _ in range(rnd.randint(1, 3))),
                     alts=["".join(rnd.choice("ACGT") for _ in range(rnd.randint(1, 3))) for _ in range(nalt)],
                     qual=None if rnd.random() < 0.3 else rnd.choice([0.0, 1.0, 12.5, 99.0, 3.25, 1e-3]),
                     filters=None if rnd.random() < 0.3 else (["PASS"] if rnd.random() < 0.5 or len(filters) == 1 else rnd.sample(filters[1:], rnd.randint(1, len(filters) - 1))),
                     info={}, fmt_keys=[], fmt={}, gt=None)
            for k, n, t in infos:
                u = rnd.random()
                if u < 0.3: continue
                if t == "Flag": r["info"][k] = True; continue
                cnt = number_count(n, nalt, rnd)
                if cnt == 0: continue
                if n in ("1", "2", "3") and rnd.random() < overlong: cnt += 1
                vals = [None if rnd.random() < 0.15 else gen_scalar(t, rnd) for _ in range(cnt)]
                r["info"][k] = vals
            if ns > 0:
                keys = [f for f in fmts if rnd.random() < 0.7]
                if has_gt and (gt_always or not fmts or rnd.random() < 0.8):
                    r["gt"] = []
                    for s in range(ns):
                        pl = rnd.randint(1, max_ploidy) if rnd.random() < 0.2 else max_ploidy
                        alleles = [None if rnd.random() < 0.15 else rnd.randint(0, nalt) for _ in range(pl)]
                        r["gt"].append((alleles, rnd.random() < 0.5))
                if r["gt"] is None and not keys:
                    keys = [fmts[0]]
                r["fmt_keys"] = keys
                for k, n, t in keys:
                    per = []
                    for s in range(ns):
                        u = rnd.random()
                        if u < 0.15: per.append(None); continue       # '.' for this sample
                        cnt = number_count(n, nalt, rnd)
                        if cnt == 0: per.append(None); continue
                        if n in ("1", "2", "3") and rnd.random() < overlong: cnt += 1
                        per.append([None if rnd.random() < 0.15 else gen_scalar(t, rnd) for _ in range(cnt)])
                    r["fmt"][k] = per
                # trailing keys dropped for some samples
                r["drop"] = [rnd.randint(0, len(keys)) if rnd.random() < 0.2 else 0 for _ in range(ns)]
            recs.append(r)
            pos += rnd.choice([0, 1, 1, 5, 50, 1000, 40000])
    # some contigs start far into their sequence (first record beyond the first index window / bin of any min_shift)
    for c in used:
        if rnd2.random() < 0.3 and contigs[c][1] != 0:      # (a contig declared with length 0 cannot be indexed beyond it as BCF)
            off = rnd2.choice([5000, 70000, 3000000, 200000000])
            for r_ in recs:
                if r_["contig"] == c:
                    r_["pos"] += off
            if contigs[c][1]:
                contigs[c] = (contigs[c][0], 500000000 + c)
    return dict(contigs=contigs, hdr_filters=hdr_filters, samples=samples, infos=infos, fmts=fmts, has_gt=has_gt, recs=recs, seed=seed)

def sval(t, v):
    if v is None: return "."
    if t == "Float": return f32str(v)
    return str(v)

def to_text(case):
    hdr = []
    for name, ln in case["contigs"]:
        hdr.append("##contig=<ID=%s%s>" % (name, ",length=%d" % ln if ln is not None else ""))
    for f in case["hdr_filters"]:
        hdr.append('##FILTER=<ID=%s,Description="filter %s">' % (f, f))
    for k, n, t in case["infos"]:
        hdr.append('##INFO=<ID=%s,Number=%s,Type=%s,Description="info %s">' % (k, n, t, k))
    if case["has_gt"]:
        hdr.append('##FORMAT=<ID=GT,Number=1,Type=String,Description="Genotype">')
    for k, n, t in case["fmts"]:
        hdr.append('##FORMAT=<ID=%s,Number=%s,Type=%s,Description="fmt %s">' % (k, n, t, k))
    lines = []
    types = {k: t for k, n, t in case["infos"] + case["fmts"]}
    for r in case["recs"]:
        info = []
        for k, n, t in case["infos"]:
            if k in r["info"]:
                v = r["info"][k]
                info.append(k if v is True else k + "=" + ",".join(sval(t, x) for x in v))
        cols = [case["contigs"][r["contig"]][0], str(r["pos"]), r["id"] or ".", r["ref"], ",".join(r["alts"]) or ".",
                "." if r["qual"] is None else f32str(r["qual"]), "." if r["filters"] is None else ";".join(r["filters"]), ";".join(info) or "."]
        if case["samples"]:
            keys = (["GT"] if r["gt"] is not None else []) + [k for k, n, t in r["fmt_keys"]]
            cols.append(":".join(keys))
            for s in range(len(case["samples"])):
                parts = []
                if r["gt"] is not None:
                    al, ph = r["gt"][s]
                    parts.append(("|" if ph else "/").join("." if a is None else str(a) for a in al))
                for k, n, t in r["fmt_keys"]:
                    v = r["fmt"][k][s]
                    parts.append("." if v is None else ",".join(sval(t, x) for x in v))
                d = r["drop"][s]
                if d and len(parts) - d >= 1: parts = parts[: len(parts) - d]
                cols.append(":".join(parts))
        lines.append("\t".join(cols))
    return vcfgen.vcf_text(hdr, lines, case["samples"])

