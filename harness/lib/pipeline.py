"""Thin wrappers over the public bio2zarr API used by several drivers."""


def dexplode(icf_path, paths, target_num_partitions=1, column_chunk_size=16, order=None, local_alleles=None, rnd=None):
    """distributed explode in-process: init, every partition (optionally shuffled), finalise"""
    from bio2zarr import vcf2zarr

    summary = vcf2zarr.explode_init(icf_path, paths, target_num_partitions=target_num_partitions, column_chunk_size=column_chunk_size,
                                    worker_processes=0, local_alleles=local_alleles)
    idx = list(range(summary.num_partitions))
    if order == "shuffle" and rnd is not None:
        rnd.shuffle(idx)
    elif order == "reverse":
        idx.reverse()
    for j in idx:
        vcf2zarr.explode_partition(icf_path, j)
    vcf2zarr.explode_finalise(icf_path)
    return summary.num_partitions


def dencode(icf_path, out, num_partitions=1, order=None, rnd=None, **kw):
    from bio2zarr import vcf2zarr

    summary = vcf2zarr.encode_init(icf_path, out, num_partitions, **kw)
    idx = list(range(summary.num_partitions))
    if order == "shuffle" and rnd is not None:
        rnd.shuffle(idx)
    elif order == "reverse":
        idx.reverse()
    for j in idx:
        vcf2zarr.encode_partition(out, j)
    vcf2zarr.encode_finalise(out)
    return summary.num_partitions
