"""Translator + Coq build + assumption audit + extraction build."""
import glob
import json
import os
import re
import subprocess
import tempfile

from .common import COQ, EXTRACT, MODEL_BIN, PY, VERIF, run

FORBIDDEN = re.compile(
    r"\b(Admitted|admit|Axiom|Axioms|Parameter|Parameters|Conjecture|Conjectures|Admit Obligations)\b"
    r"|Unset\s+Guard|bypass_check|type-in-type|impredicative-set|Unset\s+Universe\s+Checking|Unset\s+Positivity"
)
# stdlib axioms that may appear (none is expected; anything listed is reported in the evidence)
ALLOWED_AXIOMS = set()
# theorems about IEEE binary64 arithmetic are proved with Flocq over the standard library's reals: exactly
# these standard-library axioms are allowed, for exactly these theorems (DESIGN.md section 6)
REALS_AXIOMS = {
    "ClassicalDedekindReals.sig_forall_dec",
    "ClassicalDedekindReals.sig_not_dec",
    "FunctionalExtensionality.functional_extensionality_dep",
    "Classical_Prop.classic",
}
ALLOWED_PER_THEOREM = {"float_ceil_division_exact": REALS_AXIOMS}


def strip_comments(text):
    out = []
    depth = 0
    i = 0
    while i < len(text):
        if text.startswith("(*", i):
            depth += 1
            i += 2
        elif text.startswith("*)", i) and depth > 0:
            depth -= 1
            i += 2
        else:
            if depth == 0:
                out.append(text[i])
            i += 1
    return "".join(out)


def forbidden_gate():
    bad = []
    for path in glob.glob(os.path.join(COQ, "**", "*.v"), recursive=True):
        text = strip_comments(open(path).read())
        for m in FORBIDDEN.finditer(text):
            bad.append(f"{os.path.relpath(path, COQ)}: {m.group(0)}")
        # Variable/Hypothesis outside a section
        depth = 0
        for line in text.splitlines():
            s = line.strip()
            if re.match(r"Section\s+\w+", s):
                depth += 1
            elif re.match(r"End\s+\w+", s) and depth > 0:
                depth -= 1
            elif depth == 0 and re.match(r"(Variable|Variables|Hypothesis|Hypotheses|Context)\b", s):
                bad.append(f"{os.path.relpath(path, COQ)}: top-level {s[:40]}")
    return bad


def translate(units=None):
    r = run([PY, os.path.join(VERIF, "translator", "py2coq.py"), os.path.join(COQ, "Gen")] + list(units or []))
    if r.returncode != 0:
        return {"_translator": "crashed: " + r.stderr[-300:]}
    status = json.loads(r.stdout.strip().splitlines()[-1])
    # CLI table / worker skeleton extractors
    for extra in ("cli2coq.py", "workers2coq.py", "proto2coq.py", "buf2coq.py", "icfw2coq.py", "plink2coq.py", "ridx2coq.py", "regions2coq.py", "san2coq.py", "enc2coq.py", "offs2coq.py", "schema2coq.py", "iter2coq.py", "scan2coq.py", "summ2coq.py", "refine2coq.py", "initarr2coq.py", "explode2coq.py", "lpl2coq.py", "idx2coq.py", "ivcf2coq.py", "transf2coq.py"):
        p = os.path.join(VERIF, "translator", extra)
        if os.path.exists(p):
            r2 = run([PY, p, os.path.join(COQ, "Gen")])
            try:
                status.update(json.loads(r2.stdout.strip().splitlines()[-1]))
            except Exception:
                status[extra] = "crashed: " + (r2.stderr or r2.stdout)[-300:]
    return status


def ensure_makefile():
    mk = os.path.join(COQ, "Makefile")
    cp = os.path.join(COQ, "_CoqProject")
    if not os.path.exists(mk) or os.path.getmtime(mk) < os.path.getmtime(cp):
        run(["coq_makefile", "-f", "_CoqProject", "-o", "Makefile"], cwd=COQ, check=True)


def make(targets, timeout=1500):
    ensure_makefile()
    cmd = ["timeout", str(timeout), "make", "-C", COQ, "-j16", "-k"] + targets
    r = run(cmd)
    return r.returncode, (r.stdout + r.stderr), " ".join(cmd)


def build_model():
    """Extract.vo -> extract/model.ml -> extract/model (only when stale)."""
    rc, log, _ = make(["Extract.vo"])
    if rc != 0:
        return False, log
    ml = os.path.join(EXTRACT, "model.ml")
    drv = os.path.join(EXTRACT, "driver.ml")
    if not os.path.exists(ml):
        return False, "model.ml missing"
    if (not os.path.exists(MODEL_BIN)) or os.path.getmtime(MODEL_BIN) < max(os.path.getmtime(ml), os.path.getmtime(drv)):
        r = run(["ocamlfind", "ocamlopt", "-O3", "-w", "-a", "model.mli", "model.ml", "driver.ml", "-o", "model"], cwd=EXTRACT)
        if r.returncode != 0:
            try:
                os.remove(MODEL_BIN)
            except OSError:
                pass
            return False, r.stderr
    return True, ""


def build_genmodel(unit):
    """GenExtract<unit>.vo -> extract/gen/<unit>/model.ml -> extract/gen/<unit>/genmodel (translated definitions)."""
    gdir = os.path.join(EXTRACT, "gen", unit)
    os.makedirs(gdir, exist_ok=True)
    binp = os.path.join(gdir, "genmodel")
    rc, log, _ = make([f"GenExtract{unit}.vo"])
    if rc != 0:
        try:
            os.remove(binp)
        except OSError:
            pass
        return False, log
    ml = os.path.join(gdir, "model.ml")
    src = open(os.path.join(EXTRACT, "driver.ml")).read().replace("(dispatch ", "(gen_dispatch ")
    drv = os.path.join(gdir, "driver.ml")
    if not os.path.exists(drv) or open(drv).read() != src:
        open(drv, "w").write(src)
    if (not os.path.exists(binp)) or os.path.getmtime(binp) < max(os.path.getmtime(ml), os.path.getmtime(drv)):
        r = run(["ocamlfind", "ocamlopt", "-O3", "-w", "-a", "model.mli", "model.ml", "driver.ml", "-o", "genmodel"], cwd=gdir)
        if r.returncode != 0:
            return False, r.stderr
    return True, ""


def theorem_names(vfile):
    text = strip_comments(open(os.path.join(COQ, vfile)).read())
    return re.findall(r"^\s*(?:Theorem|Example|Corollary)\s+(\w+)", text, re.M)


def audit(module, names):
    """Print Assumptions for each theorem -> {name: 'closed' | [axioms]} ; None if not loadable."""
    with tempfile.TemporaryDirectory(dir="/var/tmp") as d:
        p = os.path.join(d, "Audit.v")
        with open(p, "w") as f:
            f.write(f"From B2Z Require Import {module}.\n")
            for n in names:
                f.write(f'Goal True. idtac "@@ {n}". exact I. Qed.\nPrint Assumptions {n}.\n')
        r = run(["timeout", "300", "coqc", "-Q", COQ, "B2Z", p])
        if r.returncode != 0:
            return None, r.stdout + r.stderr
        out = {}
        cur = None
        for line in r.stdout.splitlines():
            if line.startswith("@@ "):
                cur = line[3:].strip()
                out[cur] = []
            elif cur is not None:
                s = line.strip()
                if s.startswith("Closed under the global context"):
                    out[cur] = "closed"
                elif s.startswith("Axioms:") or not s:
                    continue
                elif out[cur] != "closed" and not line.startswith((" ", "\t")) and re.match(r"^[\w.']+", line):
                    # an axiom: its name starts in column 0 (the type may follow on indented lines)
                    out[cur].append(re.match(r"^[\w.']+", line).group(0))
        return out, r.stdout


def build_property(pid, cfg, thorough=False):
    res = dict(reasons=[], obligations=[], discharged=[], assumptions={}, translator={}, log="", checker_cmd="")
    # 1. translator
    status = translate()
    res["translator"] = status
    for unit in cfg.get("units", []):
        st = status.get(unit, "missing")
        if st != "ok":
            res["reasons"].append(f"translator: unit {unit}: {st}")
    # 2. gate
    bad = forbidden_gate()
    if bad:
        res["reasons"].append("forbidden tokens in development: " + "; ".join(bad[:5]))
    # 3. proofs
    targets = [f.replace(".v", ".vo") for f in cfg["props_files"]]
    rc, log, cmd = make(targets)
    res["log"] = log
    res["checker_cmd"] = cmd + " && coqc Audit.v (Print Assumptions of every property theorem)"
    for f in cfg["props_files"]:
        names = theorem_names(f)
        res["obligations"] += [f"{f}:{n}" for n in names]
        vo = os.path.join(COQ, f.replace(".v", ".vo"))
        uptodate = run(["make", "-C", COQ, "-q", f.replace(".v", ".vo")]).returncode == 0
        if not os.path.exists(vo) or not uptodate:
            err = [l for l in log.splitlines() if "Error" in l or l.startswith("File ")]
            res["reasons"].append(f"proof obligation: {f} does not compile: " + " | ".join(err[:4]))
            continue
        module = f.replace(".v", "").replace("/", ".")
        out, alog = audit(module, names)
        if out is None:
            res["reasons"].append(f"audit of {f} failed: {alog[-300:]}")
            continue
        for n in names:
            a = out.get(n)
            res["assumptions"][n] = a
            if a == "closed" or (isinstance(a, list) and a and all(x in (ALLOWED_AXIOMS | ALLOWED_PER_THEOREM.get(n, set())) for x in a)):
                res["discharged"].append(f"{f}:{n}")
            else:
                res["reasons"].append(f"theorem {n} depends on unexpected assumptions: {a}")
    if rc != 0 and not res["reasons"]:
        res["reasons"].append("make failed: " + log[-300:])
    # 4. model binary
    ok, mlog = build_model()
    if not ok:
        res["reasons"].append("extracted model does not build: " + mlog[-300:])
    if cfg.get("genextract"):
        ok, glog = build_genmodel(cfg["genextract"])
        if not ok:
            err = [l for l in glog.splitlines() if "Error" in l or l.startswith("File ")]
            res["reasons"].append("translated definitions do not build/extract: " + " | ".join(err[:3]))
    # 5. thorough: independent checker
    if thorough and not res["reasons"] and cfg.get("coqchk", True):
        mods = [("B2Z." + f.replace(".v", "").replace("/", ".")) for f in cfg["props_files"]]
        r = run(["timeout", "1500", "coqchk", "-silent", "-o", "-Q", COQ, "B2Z"] + mods)
        res["coqchk"] = (r.stdout + r.stderr)[-1500:]
        res["checker_cmd"] += " && coqchk -o -Q coq B2Z " + " ".join(mods)
        if r.returncode != 0:
            res["reasons"].append("coqchk failed: " + res["coqchk"][-300:])
    return res
