"""Task functions and scenario runner for the C14 fault-injection runs (importable by spawned workers)."""
import json
import os
import sys
import time


def die(kind):
    """the ways a task can fail other than raising an Exception"""
    if kind == "exit":
        os._exit(3)
    if kind == "exit-locked":
        # killed inside core.update_progress(), i.e. while holding the shared progress counter's lock
        from bio2zarr import core

        if core._progress_counter is not None:
            # holding the lock, or (when another killed worker already holds it) waiting for it
            core._progress_counter.get_lock().acquire(timeout=3)
        os._exit(3)
    if kind == "sigterm":
        # terminated from outside (scheduler, watchdog, `kill <pid>`) while inside the task
        import signal

        os.kill(os.getpid(), signal.SIGTERM)
        time.sleep(30)
        os._exit(3)
    if kind == "sysexit":
        raise SystemExit(0)
    if kind.startswith("raise:"):
        # exception classes that executors, generators and the os give a meaning of their own
        import concurrent.futures as cf
        import errno

        name = kind.split(":", 1)[1]
        if name == "TimeoutError":
            raise OSError(errno.ETIMEDOUT, "Connection timed out")  # becomes the builtin TimeoutError
        raise {"CancelledError": cf.CancelledError, "StopIteration": StopIteration, "KeyboardInterrupt": KeyboardInterrupt,
               "BrokenProcessPool": cf.process.BrokenProcessPool, "GeneratorExit": GeneratorExit, "MemoryError": MemoryError}[name]("injected")


def task(i, kind, fail, delay):
    time.sleep(delay)
    if i in fail:
        die(kind[i % len(kind)])
        raise ValueError(f"boom {i}")
    return i


def run_scenario(sc):
    from bio2zarr import core

    t = time.time()
    try:
        with core.ParallelWorkManager(sc["workers"]) as pwm:
            for i in range(sc["tasks"]):
                pwm.submit(task, i, sc["kinds"], set(sc["fail"]), sc["delays"][i])
            if sc.get("as_completed"):
                list(pwm.results_as_completed())
        res = "success"
    except RuntimeError:
        res = "RuntimeError"
    except SystemExit as e:
        res = f"SystemExit({e.code})"
    except ValueError:
        res = "ValueError"
    except BaseException as e:  # noqa: BLE001
        res = "other:" + type(e).__name__
    return res, time.time() - t


if __name__ == "__main__":
    scs = json.load(open(sys.argv[1]))
    for k, sc in enumerate(scs):
        res, dt = run_scenario(sc)
        print(json.dumps(dict(k=k, result=res, seconds=round(dt, 2))), flush=True)
