"""Task functions and scenario runner for the C14 fault-injection runs (importable by spawned workers)."""
import json
import os
import sys
import time


def task(i, kind, fail, delay):
    time.sleep(delay)
    if i in fail:
        if kind[i % len(kind)] == "exit":
            os._exit(3)
        raise ValueError(f"boom {i}")
    return i


def run_scenario(sc):
    from bio2zarr import core

    t = time.time()
    try:
        with core.ParallelWorkManager(sc["workers"]) as pwm:
            for i in range(sc["tasks"]):
                pwm.submit(task, i, sc["kinds"], set(sc["fail"]), sc["delays"][i])
            if sc.get("as_completed"):
                list(pwm.results_as_completed())
        res = "success"
    except RuntimeError:
        res = "RuntimeError"
    except ValueError:
        res = "ValueError"
    except Exception as e:  # noqa: BLE001
        res = "other:" + type(e).__name__
    return res, time.time() - t


if __name__ == "__main__":
    scs = json.load(open(sys.argv[1]))
    for k, sc in enumerate(scs):
        res, dt = run_scenario(sc)
        print(json.dumps(dict(k=k, result=res, seconds=round(dt, 2))), flush=True)
