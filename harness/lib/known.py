"""known_findings.json handling: open entries carry a machine-checkable signature."""
import json
import os

from .common import VERIF


def load():
    p = os.path.join(VERIF, "known_findings.json")
    if not os.path.exists(p):
        return []
    return json.load(open(p))["findings"]


def _haploid_lpl_fill(rec):
    d = rec.get("detail") or {}
    return d.get("class") == "haploid_lpl_fill"


def _haploid_last_sample_phased(rec):
    d = rec.get("detail") or {}
    return d.get("class") == "haploid_last_sample_phased"


def _chunk_over_blosc_limit(rec):
    """conversion refused although the input is well-formed: an array's UNCLIPPED zarr chunk (variants chunk size x samples chunk
    size x inner width x item size, default sizes 10 000 x 1000) exceeds the codec's 2^31 - 1 byte limit; the driver sets the class
    only after recomputing that size from the generated schema and seeing the codec's / validate()'s own error message"""
    d = rec.get("detail") or {}
    return d.get("class") == "chunk_over_blosc_limit"


PREDICATES = {
    "chunk_over_blosc_limit": _chunk_over_blosc_limit,
    "haploid_lpl_fill": _haploid_lpl_fill,
    "haploid_last_sample_phased": _haploid_last_sample_phased,
}


def match(findings, pid, rec):
    """rec: a failure/disagreement record (case, detail, what).  Returns the open finding
    whose signature predicate holds of the record, else None."""
    for f in findings:
        if f.get("status") != "open" or pid not in f.get("property", []):
            continue
        pred = PREDICATES.get(f.get("signature", {}).get("predicate"))
        if pred and pred(rec):
            return f
    return None
