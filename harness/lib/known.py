"""known_findings.json handling: open entries carry a machine-checkable signature."""
import json
import os

from .common import VERIF


def load():
    p = os.path.join(VERIF, "known_findings.json")
    if not os.path.exists(p):
        return []
    return json.load(open(p))["findings"]


def _haploid_lpl_fill(rec):
    d = rec.get("detail") or {}
    return d.get("class") == "haploid_lpl_fill"


def _haploid_last_sample_phased(rec):
    d = rec.get("detail") or {}
    return d.get("class") == "haploid_last_sample_phased"


PREDICATES = {
    "haploid_lpl_fill": _haploid_lpl_fill,
    "haploid_last_sample_phased": _haploid_last_sample_phased,
}


def match(findings, pid, rec):
    """rec: a failure/disagreement record (case, detail, what).  Returns the open finding
    whose signature predicate holds of the record, else None."""
    for f in findings:
        if f.get("status") != "open" or pid not in f.get("property", []):
            continue
        pred = PREDICATES.get(f.get("signature", {}).get("predicate"))
        if pred and pred(rec):
            return f
    return None
