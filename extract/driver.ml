(* generic driver: each input line "<op> <sexp>", sexp ::= int | ( sexp* ); prints the
   result sexp on one line.  Decimal <-> Z conversion uses the extracted Z arithmetic. *)
open Model
let rec pos_of_int n = if n = 1 then XH else if n land 1 = 0 then XO (pos_of_int (n lsr 1)) else XI (pos_of_int (n lsr 1))
let z_of_int n = if n = 0 then Z0 else if n > 0 then Zpos (pos_of_int n) else Zneg (pos_of_int (-n))
let rec int_of_pos = function XH -> 1 | XO p -> 2 * int_of_pos p | XI p -> 2 * int_of_pos p + 1
let int_of_z = function Z0 -> 0 | Zpos p -> int_of_pos p | Zneg p -> - (int_of_pos p)
let digits = Array.init 10 z_of_int
let z_of_string (s : string) : z =
  let n = String.length s in
  let neg = n > 0 && s.[0] = '-' in
  let acc = ref Z0 in
  if n - (if neg then 1 else 0) <= 17 then z_of_int (int_of_string s)
  else begin
    for i = (if neg then 1 else 0) to n - 1 do
      let d = Char.code s.[i] - 48 in
      if d < 0 || d > 9 then failwith ("bad integer " ^ s);
      acc := z_push !acc digits.(d)
    done;
    if neg then z_neg !acc else !acc end
let small = function
  | Z0 -> true
  | Zpos p | Zneg p -> let rec len k = function XH -> k | XO q | XI q -> len (k + 1) q in len 1 p <= 60
let add_z b (v : z) =
  if small v then Buffer.add_string b (string_of_int (int_of_z v))
  else begin
    if int_of_z (z_sign v) < 0 then Buffer.add_char b '-';
    let ds = ref [] in
    let cur = ref (z_abs v) in
    while !cur <> Z0 do
      ds := int_of_z (z_mod10 !cur) :: !ds; cur := z_div10 !cur
    done;
    List.iter (fun d -> Buffer.add_char b (Char.chr (48 + d))) !ds end
let parse (s : string) : sx =
  let n = String.length s in
  let i = ref 0 in
  let rec skip () = if !i < n && (s.[!i] = ' ' || s.[!i] = '\t') then (incr i; skip ()) in
  let rec item () : sx =
    skip ();
    if s.[!i] = '(' then begin
      incr i; let acc = ref [] in
      let rec loop () = skip (); if s.[!i] = ')' then incr i else (acc := item () :: !acc; loop ()) in
      loop (); L (List.rev !acc) end
    else begin
      let j = !i in
      while !i < n && s.[!i] <> ' ' && s.[!i] <> ')' && s.[!i] <> '(' do incr i done;
      A (z_of_string (String.sub s j (!i - j))) end in
  item ()
let rec print b = function
  | A z -> add_z b z
  | L l -> Buffer.add_char b '('; List.iteri (fun k x -> if k > 0 then Buffer.add_char b ' '; print b x) l; Buffer.add_char b ')'
let () =
  try while true do
    let line = input_line stdin in
    let sp = String.index line ' ' in
    let op = int_of_string (String.sub line 0 sp) in
    let arg = parse (String.sub line (sp + 1) (String.length line - sp - 1)) in
    let b = Buffer.create 1024 in
    (try print b (dispatch (z_of_int op) arg) with Stack_overflow -> Buffer.add_string b "(-999 99)");
    print_endline (Buffer.contents b)
  done with End_of_file -> ()
