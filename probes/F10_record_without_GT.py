import sys; sys.path.insert(0, '.')
from mk import *
import shutil, zarr
from bio2zarr import vcf2zarr
hdr = ['##contig=<ID=chr1,length=100000>', '##FILTER=<ID=PASS,Description="p">',
       '##FORMAT=<ID=GT,Number=1,Type=String,Description="g">', '##FORMAT=<ID=DP,Number=1,Type=Integer,Description="d">']
recs = ["chr1\t10\t.\tA\tC\t.\tPASS\t.\tGT:DP\t0/1:3\t1/1:4", "chr1\t20\t.\tA\tC\t.\tPASS\t.\tDP\t5\t6"]
write_vcf("e23.vcf", hdr, recs, ["a", "b"])
for bcf in (False, True):
    p = index("e23.vcf", kind="csi", bcf=bcf)
    shutil.rmtree("e23.vcz", ignore_errors=True)
    try:
        vcf2zarr.convert([p], "e23.vcz", worker_processes=0)
        r = zarr.open("e23.vcz"); print("OK", r["call_genotype"][:].tolist(), r["call_DP"][:].tolist())
    except Exception as e:
        print("bcf", bcf, "ERR", type(e).__name__, e)
