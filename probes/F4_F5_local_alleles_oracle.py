import sys; sys.path.insert(0, '.')
from mk import *
import random, shutil, zarr, numpy as np, itertools, traceback
from bio2zarr import vcf2zarr
def npl(A, ploidy):  # number of genotypes
    return A + 1 if ploidy == 1 else (A + 1) * (A + 2) // 2
def gidx(a, b): a, b = sorted((a, b)); return b * (b + 1) // 2 + a
def gen(seed):
    rnd = random.Random(seed)
    ns = rnd.randint(1, 4)
    samples = [f"s{i}" for i in range(ns)]
    hdr = ['##contig=<ID=chr1,length=100000>', '##FILTER=<ID=PASS,Description="p">',
           '##FORMAT=<ID=GT,Number=1,Type=String,Description="g">', '##FORMAT=<ID=PL,Number=G,Type=Integer,Description="pl">']
    ploidy = rnd.choice([1, 2, 2])
    recs, truth = [], []
    pos = 10
    for r in range(rnd.randint(1, 8)):
        A = rnd.randint(1, 4)
        alts = ",".join("CGT"[i % 3] * (i + 1) for i in range(A))
        has_pl = rnd.random() < 0.8
        cols, tr = [], []
        for s in range(ns):
            gt = [rnd.choice([None] + list(range(A + 1))) if rnd.random() < 0.9 else None for _ in range(ploidy)]
            g = rnd.choice("/|").join("." if x is None else str(x) for x in gt)
            pl = None
            if has_pl:
                if rnd.random() < 0.2: pls = "."
                else:
                    pl = [rnd.randint(0, 200) for _ in range(npl(A, ploidy))]
                    pls = ",".join(map(str, pl))
                cols.append(g + ":" + pls)
            else:
                cols.append(g)
            tr.append((gt, pl))
        recs.append(f"chr1\t{pos}\t.\tA\t{alts}\t.\tPASS\t.\t{'GT:PL' if has_pl else 'GT'}\t" + "\t".join(cols))
        truth.append((A, has_pl, tr)); pos += 10
    return hdr, recs, samples, truth, ploidy
def check(seed):
    hdr, recs, samples, truth, ploidy = gen(seed)
    write_vcf("e10.vcf", hdr, recs, samples)
    gz = index("e10.vcf", kind="csi")
    shutil.rmtree("e10.vcz", ignore_errors=True); shutil.rmtree("e10b.vcz", ignore_errors=True)
    vcf2zarr.convert([gz], "e10.vcz", worker_processes=0, local_alleles=True)
    vcf2zarr.convert([gz], "e10b.vcz", worker_processes=0, local_alleles=False)
    a, b = zarr.open("e10.vcz"), zarr.open("e10b.vcz")
    for k in b.array_keys():
        x, y = a[k][:], b[k][:]
        if x.dtype.kind == "f": x, y = x.view(np.int32), y.view(np.int32)
        assert x.shape == y.shape and (x == y).all() and a[k].dtype == b[k].dtype, ("other array differs", k, x.tolist(), y.tolist())
    laa, lpl = a["call_LAA"][:], a["call_LPL"][:]
    for v, (A, has_pl, tr) in enumerate(truth):
        for s, (gt, pl) in enumerate(tr):
            loc = sorted({x for x in gt if x not in (None, 0)})
            got = [x for x in laa[v, s] if x != -2]
            assert got == loc, ("LAA", v, s, gt, laa[v, s])
            la = [0] + loc
            if ploidy == 1: gl = [(x,) for x in la]
            else: gl = [(la[i], la[j]) for j in range(len(la)) for i in range(j + 1)]
            if pl is None: exp = [-1] * len(gl)
            else: exp = [pl[g[0]] if ploidy == 1 else pl[gidx(*g)] for g in gl]
            row = list(lpl[v, s])
            if has_pl:
                assert row[:len(exp)] == exp and all(x == -2 for x in row[len(exp):]), ("LPL", v, s, gt, pl, row, exp)
            else:
                assert all(x in (-1, -2) for x in row), ("LPL nopl", row)
if __name__ != "__main__": sys.argv = ["x", "0", "0"]
bad = 0
for seed in range(int(sys.argv[1]), int(sys.argv[2])):
    try: check(seed)
    except AssertionError as e: bad += 1; print(seed, "ASSERT", str(e)[:300])
    except Exception as e:
        bad += 1; print(seed, "EXC", type(e).__name__, str(e)[:200]); print(traceback.format_exc().splitlines()[-4:]); print(open("e10.vcf").read().split("#CHROM")[1])
print("bad", bad)
