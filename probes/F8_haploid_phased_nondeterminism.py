import sys; sys.path.insert(0, '.')
import e10, zarr, numpy as np, shutil, collections
from mk import *
from bio2zarr import vcf2zarr
seed = int(sys.argv[1])
hdr, recs, samples, truth, ploidy = e10.gen(52)
write_vcf(f"e15_{seed}.vcf", hdr, recs, samples)
gz = index(f"e15_{seed}.vcf", kind="csi")
import random
rnd = random.Random(seed)
junk = [np.frombuffer(os.urandom(rnd.randint(1, 4000)), dtype=np.uint8).copy() for _ in range(rnd.randint(0, 300))]
del junk
shutil.rmtree(f"e15_{seed}.vcz", ignore_errors=True)
vcf2zarr.convert([gz], f"e15_{seed}.vcz", worker_processes=0, local_alleles=bool(seed % 2))
r = zarr.open(f"e15_{seed}.vcz")
print(r["call_genotype_phased"][:].astype(int).tolist())
shutil.rmtree(f"e15_{seed}.vcz", ignore_errors=True)
for f in os.listdir("."):
    if f.startswith(f"e15_{seed}."): os.remove(f)
