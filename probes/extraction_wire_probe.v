From Coq Require Import ZArith List.
Import ListNotations.
Open Scope Z_scope.
Inductive sx := A (z : Z) | L (l : list sx).
Definition as_Z (s : sx) : option Z := match s with A z => Some z | _ => None end.
Fixpoint as_Zs (l : list sx) : option (list Z) :=
  match l with [] => Some [] | A z :: tl => match as_Zs tl with Some r => Some (z :: r) | None => None end | _ => None end.
Definition err := L [A (-1)].
(* demo entry points: op 0 = sum of a list; op 1 = prefix sums *)
Fixpoint cum (acc : Z) (l : list Z) : list Z := match l with [] => [acc] | x :: tl => acc :: cum (acc + x) tl end.
Definition dispatch (op : Z) (arg : sx) : sx :=
  match op, arg with
  | 0, L l => match as_Zs l with Some zs => A (fold_left Z.add zs 0) | None => err end
  | 1, L l => match as_Zs l with Some zs => L (map A (cum 0 zs)) | None => err end
  | _, _ => err
  end.
Require Extraction.
Require Import ExtrOcamlBasic.
Extraction "model.ml" dispatch.
