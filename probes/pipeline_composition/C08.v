From Coq Require Import Arith List Bool Lia.
Import ListNotations.

Section Icf.
Variable A : Type.
Notation chunk := (list A).
Notation partition := (list (list A)).
Notation store := (list (list (list A))).

Fixpoint cum_from (acc : nat) (ls : list nat) : list nat :=
  match ls with [] => [acc] | x :: tl => acc :: cum_from (acc + x) tl end.
Definition cum ls := cum_from 0 ls.           (* np.cumsum([0, *ls]) *)

Definition plen (p : partition) : nat := length (concat p).
Definition pri (s : store) : list nat := cum (map plen s).          (* partition_record_index *)
Definition cri (p : partition) : list nat := cum (map (@length A) p). (* chunk_index *)

(* np.searchsorted(l, x, side="right") on a sorted l = number of elements <= x *)
Definition ss_right (l : list nat) (x : nat) : nat := length (filter (fun y => y <=? x) l).

Definition all_values (s : store) : list A := concat (map (@concat A) s).   (* .values *)

(* the generator body: first loop has the >= start test, later loops do not *)
Fixpoint scan1 (rid start stop : nat) (l : list A) : list A * nat * bool :=
  match l with
  | [] => ([], rid, false)
  | x :: tl => if rid =? stop then ([], rid, true)
               else let '(out, r, fin) := scan1 (S rid) start stop tl in
                    ((if start <=? rid then x :: out else out), r, fin)
  end.
Fixpoint scan2 (rid stop : nat) (l : list A) : list A :=
  match l with
  | [] => []
  | x :: tl => if rid =? stop then [] else x :: scan2 (S rid) stop tl
  end.

Definition iter_values (s : store) (start stop : nat) : list A :=
  let sp := ss_right (pri s) start - 1 in
  let offset := nth sp (pri s) 0 in
  let p := nth sp s [] in
  let sc := ss_right (cri p) (start - offset) - 1 in
  let rid0 := offset + nth sc (cri p) 0 in
  let '(out, rid, fin) := scan1 rid0 start stop (concat (skipn sc p)) in
  if fin then out else out ++ scan2 rid stop (concat (map (@concat A) (skipn (S sp) s))).

(* ---------- lemmas ---------- *)
Lemma cum_from_length acc ls : length (cum_from acc ls) = S (length ls).
Proof. revert acc; induction ls; intros; simpl; auto. Qed.

Lemma cum_from_nth acc ls k : k <= length ls ->
  nth k (cum_from acc ls) 0 = acc + list_sum (firstn k ls).
Proof.
  revert acc k; induction ls as [|x tl IH]; intros acc k Hk; simpl in *.
  - assert (k = 0) by lia; subst; simpl; lia.
  - destruct k; simpl; [lia|]. rewrite IH by lia. lia.
Qed.

Lemma ss_right_cum_from acc ls x : acc <= x ->
  exists k, ss_right (cum_from acc ls) x = S k /\ k <= length ls /\
            acc + list_sum (firstn k ls) <= x /\
            (k < length ls -> x < acc + list_sum (firstn (S k) ls)) .
Proof.
  revert acc; induction ls as [|y tl IH]; intros acc Hx; unfold ss_right in *; simpl.
  - destruct (acc <=? x) eqn:E; [|apply Nat.leb_gt in E; lia]. exists 0; simpl; repeat split; lia.
  - destruct (acc <=? x) eqn:E; [|apply Nat.leb_gt in E; lia]. simpl.
    destruct (Nat.le_gt_cases (acc + y) x) as [H|H].
    + destruct (IH (acc + y) H) as [k [Hk [Hl [Hle Hlt]]]].
      exists (S k). rewrite Hk. simpl. repeat split; try lia. intros Hk2. specialize (Hlt ltac:(lia)). simpl in Hlt. lia.
    + (* all later elements > x *)
      assert (F: filter (fun y0 => y0 <=? x) (cum_from (acc + y) tl) = []).
      { clear -H. revert H. generalize (acc + y). induction tl as [|z tl IHt]; intros a Ha; simpl.
        - destruct (a <=? x) eqn:E; auto. apply Nat.leb_le in E; lia.
        - destruct (a <=? x) eqn:E; [apply Nat.leb_le in E; lia|]. apply IHt. lia. }
      rewrite F. exists 0. simpl. repeat split; lia.
Qed.

Lemma concat_skipn_sum (ls : list (list A)) k :
  concat (skipn k ls) = skipn (list_sum (firstn k (map (@length A) ls))) (concat ls).
Proof.
  revert k; induction ls as [|l tl IH]; intros k; destruct k; simpl; auto.
  rewrite IH. rewrite skipn_app. rewrite (skipn_all2 l) by lia. simpl.
  f_equal. lia.
Qed.

Lemma scan2_spec l : forall rid stop, rid <= stop -> scan2 rid stop l = firstn (stop - rid) l.
Proof.
  induction l as [|x tl IH]; intros rid stop H; simpl.
  - now rewrite firstn_nil.
  - destruct (rid =? stop) eqn:E.
    + apply Nat.eqb_eq in E. subst. now rewrite Nat.sub_diag.
    + apply Nat.eqb_neq in E. rewrite IH by lia. replace (stop - rid) with (S (stop - S rid)) by lia. reflexivity.
Qed.

Lemma scan1_spec l : forall rid start stop, rid <= start -> start <= stop ->
  let '(out, r, fin) := scan1 rid start stop l in
  out = firstn (stop - start) (skipn (start - rid) l) /\
  (fin = false -> r = rid + length l /\ rid + length l <= stop) /\
  (fin = true -> stop < rid + length l).
Proof.
  induction l as [|x tl IH]; intros rid start stop H1 H2; simpl.
  - rewrite skipn_nil, firstn_nil. repeat split; try lia; discriminate.
  - destruct (rid =? stop) eqn:E.
    + apply Nat.eqb_eq in E. subst. assert (start = stop) by lia. subst.
      rewrite Nat.sub_diag. simpl. repeat split; try discriminate; lia.
    + apply Nat.eqb_neq in E.
      destruct (start <=? rid) eqn:E2.
      * apply Nat.leb_le in E2. assert (start = rid) by lia. subst start.
        (* from here on rid >= start: use a generalized statement *)
        assert (G: forall l r, rid <= r -> r <= stop ->
                 let '(out, r', fin) := scan1 r rid stop l in
                 out = firstn (stop - r) l /\ (fin = false -> r' = r + length l /\ r + length l <= stop) /\ (fin = true -> stop < r + length l)).
        { clear. induction l as [|y tl IHl]; intros r Hr Hs; simpl.
          - rewrite firstn_nil. repeat split; try lia; discriminate.
          - destruct (r =? stop) eqn:E.
            + apply Nat.eqb_eq in E. subst. rewrite Nat.sub_diag. simpl. repeat split; try discriminate; lia.
            + apply Nat.eqb_neq in E. specialize (IHl (S r) ltac:(lia) ltac:(lia)).
              destruct (scan1 (S r) rid stop tl) as [[out r'] fin].
              destruct IHl as [-> [Ha Hb]].
              assert (rid <=? r = true) as -> by (apply Nat.leb_le; lia).
              replace (stop - r) with (S (stop - S r)) by lia. simpl.
              split; [reflexivity|split; [intros H; apply Ha in H; lia|intros H; apply Hb in H; lia]]. }
        specialize (G tl (S rid) ltac:(lia) ltac:(lia)).
        destruct (scan1 (S rid) rid stop tl) as [[out r'] fin].
        destruct G as [-> [Ha Hb]]. rewrite Nat.sub_diag. simpl.
        replace (stop - rid) with (S (stop - S rid)) by lia. simpl.
        split; [reflexivity|split; [intros H; apply Ha in H; lia|intros H; apply Hb in H; lia]].
      * apply Nat.leb_gt in E2. specialize (IH (S rid) start stop ltac:(lia) H2).
        destruct (scan1 (S rid) start stop tl) as [[out r'] fin].
        destruct IH as [-> [Ha Hb]].
        replace (start - rid) with (S (start - S rid)) by lia. simpl.
        split; [reflexivity|split; [intros H; apply Ha in H; lia|intros H; apply Hb in H; lia]].
Qed.

Lemma list_sum_map_firstn_concat (ls : list (list A)) k :
  list_sum (firstn k (map (@length A) ls)) = length (concat (firstn k ls)).
Proof.
  revert k; induction ls as [|l tl IH]; intros [|k]; simpl; auto. rewrite app_length, IH. reflexivity.
Qed.

Lemma all_values_split (s : store) k : k < length s ->
  all_values s = concat (map (@concat A) (firstn k s)) ++ concat (nth k s []) ++ concat (map (@concat A) (skipn (S k) s)).
Proof.
  revert k; induction s as [|p tl IH]; intros k Hk; simpl in *; [lia|].
  destruct k; simpl.
  - reflexivity.
  - unfold all_values in *. simpl. rewrite (IH k) by lia. now rewrite app_assoc.
Qed.

Lemma pri_nth (s : store) k : k <= length s ->
  nth k (pri s) 0 = length (concat (map (@concat A) (firstn k s))).
Proof.
  intros Hk. unfold pri, cum. rewrite cum_from_nth by (rewrite map_length; lia). simpl.
  clear Hk. revert k; induction s as [|p tl IH]; intros [|k]; simpl; auto.
  rewrite app_length, <- IH. reflexivity.
Qed.

Theorem range_read (s : store) (a b : nat) :
  a < b -> b <= length (all_values s) ->
  iter_values s a b = firstn (b - a) (skipn a (all_values s)).
Proof.
  intros Hab Hb. unfold iter_values.
  destruct (ss_right_cum_from 0 (map plen s) a ltac:(lia)) as [sp [Hsp [Hspl [Hlo Hhi]]]].
  fold (cum (map plen s)) in Hsp. fold (pri s) in Hsp. rewrite Hsp. simpl Nat.sub. rewrite Nat.sub_0_r.
  rewrite map_length in *.
  (* total length = sum of plen *)
  assert (Htot: length (all_values s) = list_sum (map plen s)).
  { unfold all_values, plen. clear. induction s; simpl; auto. rewrite app_length, IHs. reflexivity. }
  assert (Hsplt: sp < length s).
  { destruct (Nat.eq_dec sp (length s)); [|lia]. subst sp. rewrite firstn_all2 in Hlo by (rewrite map_length; lia). lia. }
  specialize (Hhi Hsplt).
  rewrite pri_nth by lia.
  set (pre := concat (map (@concat A) (firstn sp s))) in *.
  set (p := nth sp s []).
  assert (Hpre: length pre = list_sum (firstn sp (map plen s))).
  { unfold pre, plen. clear. revert sp. induction s as [|q tl IH]; intros [|k]; simpl; auto. rewrite app_length, IH. reflexivity. }
  assert (Hp: list_sum (firstn (S sp) (map plen s)) = length pre + plen p).
  { rewrite Hpre. unfold p. clear -Hsplt. revert sp Hsplt. induction s as [|q tl IH]; intros [|k] H; simpl in *; try lia.
    rewrite IH by lia. lia. }
  simpl in Hlo.
  destruct (ss_right_cum_from 0 (map (@length A) p) (a - length pre) ltac:(lia)) as [sc [Hsc [Hscl [Hclo Hchi]]]].
  fold (cum (map (@length A) p)) in Hsc. fold (cri p) in Hsc. rewrite Hsc. simpl Nat.sub. rewrite Nat.sub_0_r.
  unfold cri, cum. rewrite cum_from_nth by lia. simpl plus.
  rewrite concat_skipn_sum.
  set (k0 := list_sum (firstn sc (map (@length A) p))) in *.
  rewrite (all_values_split s sp Hsplt). fold pre p.
  simpl in Hclo.
  assert (Hk0: k0 <= length (concat p)).
  { unfold k0. rewrite list_sum_map_firstn_concat.
    assert (E: concat p = concat (firstn sc p) ++ concat (skipn sc p)) by (rewrite <- concat_app, firstn_skipn; reflexivity).
    rewrite E at 1. rewrite app_length. lia. }
  pose proof (scan1_spec (skipn k0 (concat p)) (length pre + k0) a b ltac:(lia) ltac:(lia)) as S1.
  destruct (scan1 (length pre + k0) a b (skipn k0 (concat p))) as [[out rid] fin].
  destruct S1 as [-> [Hf Ht]]. rewrite skipn_length in *.
  set (rest := concat (map (@concat A) (skipn (S sp) s))).
  assert (SS: forall (l : list A) x y, skipn x (skipn y l) = skipn (y + x) l).
  { clear. intros l x y. revert l. induction y as [|y IH]; intros l; simpl; auto. destruct l; simpl; [now rewrite skipn_nil|apply IH]. }
  rewrite SS.
  rewrite skipn_app. rewrite (skipn_all2 pre) by lia. simpl app.
  assert (Hlen: a - length pre < length (concat p)) by (change (plen p) with (length (concat p)) in Hp; lia).
  replace (k0 + (a - (length pre + k0))) with (a - length pre) by lia.
  rewrite skipn_app. replace (a - length pre - length (concat p)) with 0 by lia. simpl skipn.
  set (Y := skipn (a - length pre) (concat p)).
  assert (HY: length Y = length (concat p) - (a - length pre)) by (unfold Y; now rewrite skipn_length).
  rewrite firstn_app.
  destruct fin.
  - specialize (Ht eq_refl). replace (b - a - length Y) with 0 by lia. simpl. now rewrite app_nil_r.
  - destruct (Hf eq_refl) as [-> Hle]. rewrite scan2_spec by lia.
    rewrite (firstn_all2 Y) by lia. f_equal. f_equal. lia.
Qed.
End Icf.

