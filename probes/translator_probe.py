"""probe: fail-closed translator for the integer subset (prototype)"""
import ast, sys, textwrap
SRC = {"core": "/repo/bio2zarr/core.py", "vcz": "/repo/bio2zarr/vcf2zarr/vcz.py", "vcf_utils": "/repo/bio2zarr/vcf_utils.py", "icf": "/repo/bio2zarr/vcf2zarr/icf.py"}
class Unsupported(Exception): pass
def find(mod, qual):
    tree = ast.parse(open(SRC[mod]).read())
    node = tree
    for name in qual.split("."):
        for n in ast.walk(node) if node is tree else node.body:
            if isinstance(n, (ast.FunctionDef, ast.ClassDef)) and n.name == name: node = n; break
        else: raise Unsupported("not found " + qual)
    return node
BIN = {ast.Add: "+", ast.Sub: "-", ast.Mult: "*", ast.FloorDiv: "/", ast.Mod: "mod"}
CMP = {ast.Lt: "<?", ast.LtE: "<=?", ast.Gt: ">?", ast.GtE: ">=?", ast.Eq: "=?"}
def expr(e):
    if isinstance(e, ast.Constant) and isinstance(e.value, int): return str(e.value) if e.value >= 0 else f"({e.value})"
    if isinstance(e, ast.Name): return e.id
    if isinstance(e, ast.UnaryOp) and isinstance(e.op, ast.USub): return f"(- {expr(e.operand)})"
    if isinstance(e, ast.BinOp):
        if type(e.op) in BIN: return f"({expr(e.left)} {BIN[type(e.op)]} {expr(e.right)})"
        if isinstance(e.op, ast.LShift): return f"(Z.shiftl {expr(e.left)} {expr(e.right)})"
        if isinstance(e.op, ast.RShift): return f"(Z.shiftr {expr(e.left)} {expr(e.right)})"
        if isinstance(e.op, ast.BitAnd): return f"(Z.land {expr(e.left)} {expr(e.right)})"
    if isinstance(e, ast.Compare) and len(e.ops) == 1 and type(e.ops[0]) in CMP:
        return f"({expr(e.left)} {CMP[type(e.ops[0])]} {expr(e.comparators[0])})"
    if isinstance(e, ast.BoolOp) and isinstance(e.op, ast.And):
        return "(" + " && ".join(expr(v) for v in e.values) + ")"
    if isinstance(e, ast.Call):
        f = ast.unparse(e.func)
        if f in ("min", "max") and len(e.args) == 2: return f"(Z.{f} {expr(e.args[0])} {expr(e.args[1])})"
        if f == "int" and len(e.args) == 1:
            a = e.args[0]
            if isinstance(a, ast.Call) and ast.unparse(a.func) == "np.ceil" and isinstance(a.args[0], ast.BinOp) and isinstance(a.args[0].op, ast.Div):
                return f"(ceil_truediv {expr(a.args[0].left)} {expr(a.args[0].right)})"
            return expr(a)
        if f in KNOWN: return "(" + f + " " + " ".join(expr(a) for a in e.args) + ")"
    if isinstance(e, ast.Attribute): return ast.unparse(e).replace(".", "_")
    if isinstance(e, ast.Subscript): return f"(nth_{ast.unparse(e.slice).replace('-', 'm')} {expr(e.value)})"
    if isinstance(e, ast.Tuple): return "(" + ", ".join(expr(x) for x in e.elts) + ")"
    raise Unsupported(ast.dump(e)[:120])
KNOWN = {"get_first_bin_in_level", "get_level_size", "get_level_for_bin", "bin_limit", "ceildiv"}
def body(stmts):
    if not stmts: raise Unsupported("fallthrough")
    s, rest = stmts[0], stmts[1:]
    if isinstance(s, ast.Expr) and isinstance(s.value, ast.Constant): return body(rest)  # docstring
    if isinstance(s, ast.Return): return expr(s.value)
    if isinstance(s, ast.Assign) and len(s.targets) == 1 and isinstance(s.targets[0], ast.Name):
        return f"let {s.targets[0].id} := {expr(s.value)} in\n  {body(rest)}"
    if isinstance(s, ast.If):
        if isinstance(s.body[-1], (ast.Return, ast.Raise)) and not s.orelse:
            then = "None" if isinstance(s.body[-1], ast.Raise) else body(s.body)
            return f"if {expr(s.test)} then {then} else\n  {body(rest)}"
        if len(s.body) == 1 and isinstance(s.body[0], ast.Assign) and not s.orelse:
            t = s.body[0].targets[0].id
            return f"let {t} := if {expr(s.test)} then {expr(s.body[0].value)} else {t} in\n  {body(rest)}"
    raise Unsupported(type(s).__name__ + ": " + ast.unparse(s)[:80])
for mod, q in [("vcf_utils", "ceildiv"), ("vcf_utils", "get_file_offset"), ("vcf_utils", "bin_limit"), ("vcf_utils", "get_first_bin_in_level"),
               ("vcf_utils", "get_level_size"), ("vcf_utils", "get_first_locus_in_bin"), ("vcf_utils", "get_level_for_bin"),
               ("core", "min_int_dtype"), ("core", "chunk_aligned_slices"), ("vcz", "VcfZarrPartition.generate_partitions"), ("icf", "check_overlapping_partitions")]:
    fn = find(mod, q)
    args = [a.arg for a in fn.args.args]
    try:
        print(f"Definition {fn.name} ({' '.join(args)} : Z) :=\n  {body(fn.body)}.\n")
    except Unsupported as u:
        print(f"(* {q}: needs a loop pattern: {u} *)\n")
