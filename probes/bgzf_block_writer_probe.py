import zlib, struct
EOF_BLOCK = bytes.fromhex("1f8b08040000000000ff0600424302001b0003000000000000000000")
def bgzf_block(data: bytes) -> bytes:
    assert len(data) <= 65280
    c = zlib.compressobj(6, zlib.DEFLATED, -15)
    comp = c.compress(data) + c.flush()
    bsize = len(comp) + 25
    hdr = struct.pack("<BBBBIBBHBBHH", 0x1f, 0x8b, 8, 4, 0, 0, 0xff, 6, 66, 67, 2, bsize)
    return hdr + comp + struct.pack("<II", zlib.crc32(data), len(data))
def write_bgzf(path, text: str, lines_per_block=5):
    """header goes in its own block(s); then every `lines_per_block` record lines start a new block"""
    lines = text.encode().splitlines(keepends=True)
    hdr = [l for l in lines if l.startswith(b"#")]; body = [l for l in lines if not l.startswith(b"#")]
    with open(path, "wb") as f:
        buf = b"".join(hdr)
        for i in range(0, len(buf), 60000): f.write(bgzf_block(buf[i:i + 60000]))
        for i in range(0, len(body), lines_per_block):
            chunk = b"".join(body[i:i + lines_per_block])
            for j in range(0, len(chunk), 60000): f.write(bgzf_block(chunk[j:j + 60000]))
        f.write(EOF_BLOCK)
