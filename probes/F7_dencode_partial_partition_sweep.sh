export PYTHONPATH=/root/scratch/site:/repo
PY=/venv/bin/python
rm -rf f7.icf f7ref.vcz f7base.vcz
$PY -m bio2zarr vcf2zarr explode /repo/tests/data/vcf/sample.vcf.gz f7.icf -Q -p 0
$PY -m bio2zarr vcf2zarr encode f7.icf f7ref.vcz -l 3 -Q -p 0
$PY -m bio2zarr vcf2zarr dencode-init f7.icf f7base.vcz -n 3 -l 3 -Q >/dev/null
for j in 0 1 2; do $PY -m bio2zarr vcf2zarr dencode-partition f7base.vcz $j; done
for n in $(seq 1 70); do
  rm -rf f7.vcz; cp -r f7base.vcz f7.vcz
  VERIF_CRASH_MATCH="os.remove||$n" $PY -m bio2zarr vcf2zarr dencode-partition f7.vcz 1 2>/dev/null; pe=$?
  $PY -m bio2zarr vcf2zarr dencode-finalise f7.vcz -Q 2>/dev/null; fe=$?
  res=$($PY -c "
import zarr, numpy as np, os
if not os.path.exists('f7.vcz/.zmetadata'): print('unfinished'); raise SystemExit
a = zarr.open('f7.vcz'); b = zarr.open('f7ref.vcz')
d = []
for k in sorted(b.array_keys()):
    if k == 'region_index': continue
    if k not in a: d.append(k + ':absent'); continue
    x, y = a[k][:], b[k][:]
    same = x.shape == y.shape and all(str(p) == str(q) for p, q in zip(x.ravel().tolist(), y.ravel().tolist()))
    if not same: d.append(k)
print('FINISHED', 'DIFF=' + ','.join(d) if d else 'same')
" 2>&1 | tail -1)
  echo "n=$n partition_exit=$pe finalise_exit=$fe $res"
done
