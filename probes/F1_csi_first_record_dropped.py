import sys; sys.path.insert(0, '.')
from mk import *
import shutil, random
from bio2zarr import vcf_utils
import cyvcf2
hdr = ['##contig=<ID=chr1,length=10000000>', '##contig=<ID=chr2,length=10000000>',
       '##INFO=<ID=END,Number=1,Type=Integer,Description="end">',
       '##FILTER=<ID=PASS,Description="All filters passed">']
def run(seed, bcf, min_shift=14):
    rnd = random.Random(seed)
    recs = []
    truth = []
    for c in ("chr1", "chr2"):
        pos = rnd.randint(1, 40000)
        n = rnd.randint(1, 30)
        for i in range(n):
            if rnd.random() < 0.3:
                end = pos + rnd.randint(1, 100000)
                recs.append(f"{c}\t{pos}\t.\tA\t<DEL>\t.\tPASS\tEND={end}")
            else:
                recs.append(f"{c}\t{pos}\t.\tA\tT\t.\tPASS\t.")
            truth.append((c, pos))
            pos += rnd.choice([0, 1, 5, 100, 5000, 20000, 70000])
    write_vcf("e4.vcf", hdr, recs)
    p = index("e4.vcf", kind="csi", min_shift=min_shift, bcf=bcf)
    bad = []
    for num_parts in [1, 2, 3, 5, 10, 50, 1000]:
        with vcf_utils.IndexedVcf(p) as iv:
            try:
                regions = list(iv.partition_into_regions(num_parts=num_parts))
            except AssertionError as e:
                bad.append((num_parts, "AssertionError"))
                continue
            got = []
            for r in regions:
                for v in iv.variants(r):
                    got.append((v.CHROM, v.POS))
        if got != truth:
            bad.append((num_parts, len(truth), len(got), [str(r) for r in regions][:4], truth[:3]))
    return bad
for bcf in (False, True):
  for ms in (14, 10):
    nbad = 0
    for seed in range(150):
        b = run(seed, bcf, ms)
        if b:
            nbad += 1
            if nbad <= 2: print("bcf", bcf, "ms", ms, "seed", seed, b[:2])
    print("bcf", bcf, "min_shift", ms, "bad seeds", nbad)
