From Coq Require Import ZArith Arith List Bool Lia ZifyBool.
Import ListNotations.
Ltac Zify.zify_post_hook ::= Z.to_euclidean_division_equations.

(* the (a_index, b_index) pairs that compute_lpl_field builds with np.repeat / np.tril_indices, for L local alleles *)
Definition pairs (L : nat) : list (nat * nat) :=
  flat_map (fun r => map (fun c => (c, r)) (seq 0 (S r))) (seq 0 L).
Definition tri (n : nat) : nat := n * (n + 1) / 2.

Lemma tri_S n : tri (S n) = tri n + S n.
Proof.
  unfold tri. replace (S n * (S n + 1)) with (n * (n + 1) + S n * 2) by lia.
  apply Nat.div_add. lia.
Qed.
Lemma tri_mono a b : a <= b -> tri a <= tri b.
Proof. induction 1; auto. rewrite tri_S. lia. Qed.

Lemma pairs_S L : pairs (S L) = pairs L ++ map (fun c => (c, L)) (seq 0 (S L)).
Proof.
  unfold pairs. rewrite (seq_S L 0) at 1. rewrite flat_map_app. cbn [flat_map Nat.add]. rewrite app_nil_r. reflexivity.
Qed.

Lemma pairs_length L : length (pairs L) = tri L.
Proof.
  induction L as [|L IH]; [reflexivity|].
  rewrite pairs_S, app_length, IH, map_length, seq_length, tri_S. reflexivity.
Qed.

Lemma nth_map_lt {A B} (f : A -> B) l k d d' : k < length l -> nth k (map f l) d = f (nth k l d').
Proof. revert k; induction l; intros [|k] H; simpl in *; try lia; auto. apply IHl. lia. Qed.

(* VCF genotype order: the k-th diploid genotype over L alleles is (c, r) with k = r(r+1)/2 + c, c <= r *)
Theorem genotype_index_bijection L c r : c <= r -> r < L ->
  nth (tri r + c) (pairs L) (0, 0) = (c, r).
Proof.
  induction L as [|L IH]; intros Hc Hr; [lia|].
  rewrite pairs_S.
  destruct (Nat.eq_dec r L) as [->|Hne].
  - rewrite app_nth2 by (rewrite pairs_length; lia). rewrite pairs_length.
    replace (tri L + c - tri L) with c by lia.
    rewrite (nth_map_lt _ _ _ _ 0) by (rewrite seq_length; lia). rewrite seq_nth by lia. reflexivity.
  - rewrite app_nth1; [apply IH; lia|]. rewrite pairs_length.
    assert (tri (S r) <= tri L) by (apply tri_mono; lia).
    rewrite tri_S in *. lia.
Qed.

(* prefix property: the pairs over the first m alleles come first (so fill-padded local alleles only affect the tail) *)
Lemma pairs_prefix m L : m <= L -> firstn (tri m) (pairs L) = pairs m.
Proof.
  induction L as [|L IH]; intros H.
  - assert (m = 0) by lia. subst. reflexivity.
  - destruct (Nat.eq_dec m (S L)) as [->|Hne].
    + rewrite <- pairs_length. apply firstn_all.
    + rewrite pairs_S, firstn_app, pairs_length.
      assert (tri m <= tri L) by (apply tri_mono; lia).
      replace (tri m - tri L) with 0 by lia. simpl. rewrite app_nil_r. apply IH. lia.
Qed.

(* entries whose row index is >= m (the padded part) are exactly those after position tri m *)
Lemma pairs_tail m L k : m <= L -> tri m <= k < tri L -> m <= snd (nth k (pairs L) (0, 0)).
Proof.
  intros Hm Hk.
  induction L as [|L IH]; [unfold tri in *; simpl in *; lia|].
  destruct (Nat.eq_dec m (S L)) as [->|Hne]; [lia|].
  rewrite pairs_S. destruct (Nat.lt_ge_cases k (tri L)) as [Hlt|Hge].
  - rewrite app_nth1 by (rewrite pairs_length; lia). apply IH; lia.
  - rewrite app_nth2 by (rewrite pairs_length; lia). rewrite pairs_length.
    rewrite tri_S in Hk.
    rewrite (nth_map_lt _ _ _ _ 0) by (rewrite seq_length; lia). simpl. lia.
Qed.
Print Assumptions genotype_index_bijection.
