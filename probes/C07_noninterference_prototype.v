From Coq Require Import List Bool Lia.
Import ListNotations.

(* Generic non-interference => serialisability, for any path, value and operation types. *)
Section Interleave.
Variables (path V op : Type).
Notation state := (path -> V).
Variable apply : op -> state -> state.
Variables touches writes : op -> path -> bool.       (* read-or-write footprint, write footprint *)

Definition eqv (s t : state) := forall p, s p = t p.

(* the footprints are honest about `apply` *)
Hypothesis writes_touches : forall o p, writes o p = true -> touches o p = true.
Hypothesis frame : forall o s p, writes o p = false -> apply o s p = s p.
Hypothesis local : forall o s t, (forall p, touches o p = true -> s p = t p) ->
                                 forall p, writes o p = true -> apply o s p = apply o t p.

Definition independent (a b : op) : Prop :=
  (forall p, writes a p = true -> touches b p = false) /\ (forall p, writes b p = true -> touches a p = false).

Lemma apply_eqv o s t : eqv s t -> eqv (apply o s) (apply o t).
Proof.
  intros E p. destruct (writes o p) eqn:W.
  - apply local; auto.
  - rewrite !frame by auto. apply E.
Qed.

Lemma commute a b s : independent a b -> eqv (apply a (apply b s)) (apply b (apply a s)).
Proof.
  intros [Hab Hba] p.
  destruct (writes a p) eqn:Wa, (writes b p) eqn:Wb.
  - specialize (Hab p Wa). rewrite (writes_touches b p Wb) in Hab. discriminate.
  - rewrite (frame b (apply a s) p Wb). apply local; auto.
    intros q Tq. apply frame. destruct (writes b q) eqn:E; auto. specialize (Hba q E). congruence.
  - rewrite (frame a (apply b s) p Wa). symmetry. apply local; auto.
    intros q Tq. apply frame. destruct (writes a q) eqn:E; auto. specialize (Hab q E). congruence.
  - rewrite !frame by auto. reflexivity.
Qed.

Definition exec (l : list op) (s : state) : state := fold_left (fun s o => apply o s) l s.

Lemma exec_eqv l : forall s t, eqv s t -> eqv (exec l s) (exec l t).
Proof. induction l as [|o l IH]; intros s t E; simpl; auto. apply IH. apply apply_eqv; auto. Qed.

Lemma exec_app l1 l2 s : exec (l1 ++ l2) s = exec l2 (exec l1 s).
Proof. unfold exec. apply fold_left_app. Qed.

Lemma eqv_trans s t u : eqv s t -> eqv t u -> eqv s u.
Proof. intros A B p. rewrite A. apply B. Qed.
Lemma eqv_sym s t : eqv s t -> eqv t s.
Proof. intros A p. symmetry. apply A. Qed.

Lemma swap_past b l : (forall a, In a l -> independent a b) ->
  forall s, eqv (exec l (apply b s)) (apply b (exec l s)).
Proof.
  induction l as [|a l IH]; intros H s; simpl; [intros p; reflexivity|].
  eapply eqv_trans; [apply exec_eqv; apply commute; apply H; simpl; auto|].
  apply IH. intros a' Ha'. apply H. simpl; auto.
Qed.

Inductive merge : list op -> list op -> list op -> Prop :=
| merge_nil : merge [] [] []
| merge_l a l1 l2 l : merge l1 l2 l -> merge (a :: l1) l2 (a :: l)
| merge_r b l1 l2 l : merge l1 l2 l -> merge l1 (b :: l2) (b :: l).

Theorem merge_serialisable l1 l2 l : merge l1 l2 l ->
  (forall a b, In a l1 -> In b l2 -> independent a b) ->
  forall s, eqv (exec l s) (exec (l1 ++ l2) s).
Proof.
  induction 1 as [|a l1 l2 l M IH|b l1 l2 l M IH]; intros Hind s; simpl.
  - intros p; reflexivity.
  - apply IH. intros; apply Hind; simpl; auto.
  - eapply eqv_trans; [apply IH; intros; apply Hind; simpl; auto|].
    rewrite !exec_app. simpl.
    apply exec_eqv. apply swap_past. intros a Ha. apply Hind; simpl; auto.
Qed.

(* n tasks: any interleaving is obtained by merging the first task into an interleaving of the others *)
Inductive interleaving : list (list op) -> list op -> Prop :=
| il_nil : interleaving [] []
| il_cons t ts l' l : interleaving ts l' -> merge t l' l -> interleaving (t :: ts) l.

Lemma interleaving_In ts l : interleaving ts l -> forall o, In o l -> exists t, In t ts /\ In o t.
Proof.
  induction 1 as [|t ts l' l Hi IH M]; intros o Ho; [destruct Ho|].
  assert (G: forall l1 l2 l, merge l1 l2 l -> forall o, In o l -> In o l1 \/ In o l2).
  { clear. induction 1; intros o Ho; simpl in *; try tauto; destruct Ho as [->|Ho]; auto; destruct (IHmerge o Ho); auto. }
  destruct (G _ _ _ M o Ho) as [H|H].
  - exists t. simpl; auto.
  - destruct (IH o H) as [t' [Ht' Ho']]. exists t'. simpl; auto.
Qed.

Fixpoint pairwise (P : list op -> list op -> Prop) (ts : list (list op)) : Prop :=
  match ts with [] => True | t :: tl => (forall t', In t' tl -> P t t') /\ pairwise P tl end.
Definition tasks_independent (t t' : list op) := forall a b, In a t -> In b t' -> independent a b.

(* C07: every interleaving of pairwise non-interfering tasks ends in the state of the sequential run *)
Theorem noninterference_serialisable ts l :
  interleaving ts l -> pairwise tasks_independent ts -> forall s, eqv (exec l s) (exec (concat ts) s).
Proof.
  induction 1 as [|t ts l' l Hi IH M]; intros Hp s; simpl.
  - intros p; reflexivity.
  - destruct Hp as [Ht Hp].
    eapply eqv_trans.
    + apply (merge_serialisable _ _ _ M). intros a b Ha Hb.
      destruct (interleaving_In _ _ Hi b Hb) as [t' [Ht' Hb']]. apply (Ht t' Ht'); auto.
    + rewrite !exec_app. apply IH; auto.
Qed.
End Interleave.
Print Assumptions noninterference_serialisable.
