From Coq Require Import ZArith List Bool Lia ZifyBool.
Import ListNotations.
Open Scope Z_scope.

(* ---------------- C10: min_int_dtype ---------------- *)
Inductive dtype := I1 | I2 | I4 | I8.
Definition bits (d : dtype) : Z := match d with I1 => 8 | I2 => 16 | I4 => 32 | I8 => 64 end.
Definition dmin d := - 2 ^ (bits d - 1).
Definition dmax d := 2 ^ (bits d - 1) - 1.
Definition fits d lo hi := (dmin d <=? lo) && (hi <=? dmax d).
(* as the translator will emit it from the `for a_dtype in ["i1","i2","i4","i8"]` loop *)
Definition min_int_dtype (lo hi : Z) : option dtype :=
  if hi <? lo then None
  else if fits I1 lo hi then Some I1 else if fits I2 lo hi then Some I2
  else if fits I4 lo hi then Some I4 else if fits I8 lo hi then Some I8 else None.

Definition narrower a b := bits a < bits b.
Theorem min_int_dtype_fits_minimal lo hi d : min_int_dtype lo hi = Some d ->
  lo <= hi /\ dmin d <= lo /\ hi <= dmax d /\ (forall d', narrower d' d -> ~ (dmin d' <= lo /\ hi <= dmax d')).
Proof.
  unfold min_int_dtype, fits. intros H.
  repeat match type of H with (if ?c then _ else _) = _ => destruct c eqn:? end; inversion H; subst;
  (repeat split; try lia; intros d' Hn; destruct d'; unfold narrower, dmin, dmax, bits in *; simpl in *; lia).
Qed.
Theorem sentinels_representable lo hi d : min_int_dtype lo hi = Some d -> dmin d <= -2 /\ -1 <= dmax d.
Proof. intros _. destruct d; unfold dmin, dmax, bits; simpl; lia. Qed.
(* astype wraps; inside the range it is the identity: a generated schema never clips *)
Definition cast d x := (x + 2 ^ (bits d - 1)) mod 2 ^ bits d - 2 ^ (bits d - 1).
Theorem cast_id_in_range d x : dmin d <= x <= dmax d -> cast d x = x.
Proof. unfold cast, dmin, dmax. destruct d; simpl bits; simpl Z.sub; intros H;
  rewrite Z.mod_small; simpl in *; lia. Qed.

(* ---------------- C13: adjacent overlap check is complete ---------------- *)
Record part := { pc : nat; ps : Z; pe : Z }.   (* contig index, first POS (region start), last POS *)
Definition key_le (a b : part) := (pc a < pc b)%nat \/ (pc a = pc b /\ ps a <= ps b).
Fixpoint sorted (l : list part) : Prop := match l with [] => True | a :: tl => (forall b, In b tl -> key_le a b) /\ sorted tl end.
Fixpoint check (l : list part) : bool :=       (* check_overlapping_partitions: true = accepted *)
  match l with
  | a :: ((b :: _) as tl) => (if Nat.eqb (pc a) (pc b) then pe a <? ps b else true) && check tl
  | _ => true
  end.
Definition dflt := Build_part 0 0 0.
Definition disjoint (a b : part) := pc a <> pc b \/ pe a < ps b \/ pe b < ps a.

Theorem overlap_check_complete l : sorted l -> (forall a, In a l -> ps a <= pe a) ->
  (check l = true <-> forall i j, (i < j < length l)%nat -> disjoint (nth i l dflt) (nth j l dflt)).
Proof.
  induction l as [|a tl IH]; intros Hs Hw.
  - simpl. split; auto. intros _ i j H. simpl in H. lia.
  - destruct Hs as [Ha Hs]. specialize (IH Hs (fun x Hx => Hw x (or_intror Hx))).
    destruct tl as [|b tl'].
    + simpl. split; auto. intros _ i j H. simpl in H. lia.
    + cbn [check]. rewrite andb_true_iff, IH. split.
      * intros [Hab Hrest] i j Hij. destruct i as [|i].
        -- destruct j as [|j]; [lia|]. change (disjoint a (nth j (b :: tl') dflt)).
           assert (Hin: In (nth j (b :: tl') dflt) (b :: tl')) by (apply nth_In; simpl in *; lia).
           destruct (Ha _ Hin) as [Hlt|[Heq Hle]].
           { left. lia. }
           destruct (Ha b (or_introl eq_refl)) as [Hlt|[Heqb Hleb]].
           ++ (* pc a < pc b but pc a = pc (nth j): sortedness of tl gives pc b <= pc nth j *)
              destruct j as [|j]; [simpl in *; lia|].
              destruct Hs as [Hb _]. change (nth (S j) (b :: tl') dflt) with (nth j tl' dflt) in *.
              assert (Hin2: In (nth j tl' dflt) tl') by (apply nth_In; simpl in *; lia).
              destruct (Hb _ Hin2) as [H1|[H1 _]]; left; lia.
           ++ rewrite <- Heqb, Nat.eqb_refl in Hab. right. left.
              destruct j as [|j]; [simpl; lia|].
              destruct Hs as [Hb _]. change (nth (S j) (b :: tl') dflt) with (nth j tl' dflt) in *.
              assert (Hin2: In (nth j tl' dflt) tl') by (apply nth_In; simpl in *; lia).
              destruct (Hb _ Hin2) as [H1|[H1 H2]]; [lia|]. lia.
        -- destruct j as [|j]; [lia|]. change (disjoint (nth i (b :: tl') dflt) (nth j (b :: tl') dflt)). apply Hrest. simpl in *. lia.
      * intros H. split.
        -- specialize (H 0%nat 1%nat ltac:(simpl; lia)). change (disjoint a b) in H.
           destruct (Nat.eqb_spec (pc a) (pc b)) as [E|E]; auto.
           destruct H as [H|[H|H]]; [congruence|lia|].
           destruct (Ha b (or_introl eq_refl)) as [Hlt|[_ Hle]]; [lia|].
           pose proof (Hw a (or_introl eq_refl)). pose proof (Hw b (or_intror (or_introl eq_refl))). lia.
        -- intros i j Hij. apply (H (S i) (S j)). simpl in *. lia.
Qed.
Print Assumptions overlap_check_complete.
