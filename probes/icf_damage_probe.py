import shutil, os, pathlib, numpy as np, collections
from bio2zarr import vcf2zarr
from bio2zarr.vcf2zarr import icf as icfm
shutil.rmtree("e7.icf", ignore_errors=True)
vcf2zarr.explode("e7.icf", ["/repo/tests/data/vcf/sample.vcf.gz"], worker_processes=0)
def snapshot(path):
    s = icfm.IntermediateColumnarFormat(path)
    out = {}
    for name, f in s.items():
        out[name] = [None if v is None else (v.dtype.str, v.shape, v.tolist()) for v in f.values]
    return out, s.metadata.asdict()
ref, refmeta = snapshot("e7.icf")
files = [p for p in pathlib.Path("e7.icf").rglob("*") if p.is_file()]
res = collections.Counter()
for p in files:
    data = p.read_bytes()
    for L in list(range(len(data))) + [None]:
        if L is None: p.unlink()
        else: p.write_bytes(data[:L])
        try:
            got, gm = snapshot("e7.icf")
            if got == ref and gm == refmeta: r = "SAME"
            else: r = "DIFFERENT"
        except BaseException as e:
            r = "ERR"
        res[(p.name if not p.name.isdigit() else "chunk", r)] += 1
        if r != "ERR": print(p, L, len(data), r)
        p.write_bytes(data)
print(res)
