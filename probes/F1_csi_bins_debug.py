import sys; sys.path.insert(0, '.')
from mk import *
import random
from bio2zarr import vcf_utils
hdr = ['##contig=<ID=chr1,length=10000000>', '##contig=<ID=chr2,length=10000000>',
       '##INFO=<ID=END,Number=1,Type=Integer,Description="end">',
       '##FILTER=<ID=PASS,Description="All filters passed">']
rnd = random.Random(2)
recs = []
for c in ("chr1", "chr2"):
    pos = rnd.randint(1, 40000)
    n = rnd.randint(1, 30)
    for i in range(n):
        if rnd.random() < 0.3:
            end = pos + rnd.randint(1, 100000)
            recs.append(f"{c}\t{pos}\t.\tA\t<DEL>\t.\tPASS\tEND={end}")
        else:
            recs.append(f"{c}\t{pos}\t.\tA\tT\t.\tPASS\t.")
        pos += rnd.choice([0, 1, 5, 100, 5000, 20000, 70000])
print("\n".join(recs[:8]))
write_vcf("e4.vcf", hdr, recs)
p = index("e4.vcf", kind="csi", min_shift=10)
csi = vcf_utils.read_csi(p + ".csi")
print(csi.min_shift, csi.depth)
for b in csi.bins[0]:
    print(b.bin, hex(b.loffset), vcf_utils.get_first_locus_in_bin(csi, b.bin) if b.bin <= vcf_utils.bin_limit(csi.min_shift, csi.depth) else "pseudo", [(hex(c.cnk_beg), hex(c.cnk_end)) for c in b.chunks])
