import sys; sys.path.insert(0, '.')
from mk import *
import random, cyvcf2
from bio2zarr import vcf_utils
hdr = ['##contig=<ID=chr1,length=10000000>', '##contig=<ID=chr2,length=10000000>',
       '##INFO=<ID=END,Number=1,Type=Integer,Description="end">', '##FILTER=<ID=PASS,Description="All filters passed">']
viol = {"mono": 0, "eqpos": 0, "first": 0, "files": 0}
for seed in range(150):
  for ms in (9, 12, 14):
    rnd = random.Random(seed)
    recs, first = [], {}
    for ci, c in enumerate(("chr1", "chr2")):
        pos = rnd.randint(1, 40000)
        for i in range(rnd.randint(1, 30)):
            first.setdefault(ci, pos)
            if rnd.random() < 0.3: recs.append(f"{c}\t{pos}\t.\tA\t<DEL>\t.\tPASS\tEND={pos + rnd.randint(1, 100000)}")
            else: recs.append(f"{c}\t{pos}\t.\tA\tT\t.\tPASS\t.")
            pos += rnd.choice([0, 1, 5, 100, 5000, 20000, 70000])
    write_vcf("e27.vcf", hdr, recs)
    p = index("e27.vcf", kind="csi", min_shift=ms, bcf=(seed % 2 == 0))
    csi = vcf_utils.read_csi(p + ".csi"); viol["files"] += 1
    pseudo = vcf_utils.bin_limit(csi.min_shift, csi.depth) + 1
    for ci, bins in enumerate(csi.bins):
        bs = [(vcf_utils.get_first_locus_in_bin(csi, b.bin), b.loffset) for b in bins if b.bin != pseudo]
        if not bs: continue
        for (p1, l1) in bs:
            for (p2, l2) in bs:
                if p1 < p2 and l1 > l2: viol["mono"] += 1
                if p1 == p2 and l1 != l2: viol["eqpos"] += 1
        lmin = min(l for _, l in bs)
        if not any(l == lmin and pp <= first[ci] for pp, l in bs): viol["first"] += 1
print(viol)
