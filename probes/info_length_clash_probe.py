import sys; sys.path.insert(0, '.')
from mk import *
import shutil, zarr
from bio2zarr import vcf2zarr
hdr = ['##contig=<ID=chr1,length=100000>',
       '##INFO=<ID=length,Number=1,Type=Integer,Description="clash">',
       '##FILTER=<ID=PASS,Description="All filters passed">']
recs = ["chr1\t%d\t.\tA\tT\t.\tPASS\tlength=%d" % (p, 500+p) for p in (10, 20, 30)]
write_vcf("e1.vcf", hdr, recs)
gz = index("e1.vcf")
shutil.rmtree("e1.vcz", ignore_errors=True)
try:
    vcf2zarr.convert([gz], "e1.vcz", worker_processes=0)
    root = zarr.open("e1.vcz")
    print("OK converted; variant_length =", root["variant_length"][:], "dtype", root["variant_length"].dtype)
    print(sorted(root.array_keys()))
except Exception as e:
    print("ERR", type(e), e)
