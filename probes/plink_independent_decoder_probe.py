import numpy as np, random, shutil, zarr
from bio2zarr import plink
def write_fileset(prefix, codes, rnd):
    m, n = codes.shape  # variants x samples, codes in {0,1,2,3} raw 2-bit
    with open(prefix + ".bed", "wb") as f:
        f.write(bytes([0x6c, 0x1b, 0x01]))
        for v in range(m):
            row = bytearray((n + 3) // 4)
            for s in range(n):
                row[s // 4] |= int(codes[v, s]) << (2 * (s % 4))
            f.write(bytes(row))
    with open(prefix + ".fam", "w") as f:
        for s in range(n):
            f.write(f"fam{s} ind{s} 0 0 0 -9\n")
    with open(prefix + ".bim", "w") as f:
        for v in range(m):
            f.write(f"1\tsnp{v}\t0\t{100 + v * 7}\t{'ACGT'[v % 4]}\t{'CGTA'[v % 4]}\n")
MAP = {0: (0, 0), 1: (-1, -1), 2: (1, 0), 3: (1, 1)}   # 00 homA1, 01 missing, 10 het, 11 homA2
if __name__ == "__main__":
    bad = 0
    for seed in range(40):
        rnd = random.Random(seed)
        m, n = rnd.randint(1, 40), rnd.randint(1, 13)
        codes = np.array([[rnd.randrange(4) for _ in range(n)] for _ in range(m)])
        write_fileset("e9", codes, rnd)
        vcs, scs, w = rnd.randint(1, m + 2), rnd.randint(1, n + 2), rnd.choice([0, 0, 1, 2])
        shutil.rmtree("e9.vcz", ignore_errors=True)
        try:
            plink.convert("e9.bed", "e9.vcz", variants_chunk_size=vcs, samples_chunk_size=scs, worker_processes=w)
        except Exception as e:
            print(seed, m, n, vcs, scs, w, "ERR", type(e).__name__, e); bad += 1; continue
        root = zarr.open("e9.vcz")
        gt = root["call_genotype"][:]
        exp = np.array([[MAP[c] for c in row] for row in codes])
        ok = (gt == exp).all() and (root["call_genotype_mask"][:] == (exp == -1)).all() and not root["call_genotype_phased"][:].any()
        ok = ok and list(root["sample_id"][:]) == [f"ind{s}" for s in range(n)] and list(root["variant_position"][:]) == [100 + v * 7 for v in range(m)]
        al = root["variant_allele"][:]
        ok2 = [list(a) for a in al] == [['ACGT'[v % 4], 'CGTA'[v % 4]] for v in range(m)]
        if not (ok and ok2):
            bad += 1; print(seed, m, n, vcs, scs, w, "MISMATCH", ok, ok2)
    print("bad", bad)
