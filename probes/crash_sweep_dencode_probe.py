"""probe: parallel crash sweep of the distributed encode protocol (prototype of the C06 crash correspondence)"""
import os, sys, shutil, subprocess, json, collections, multiprocessing
REPO = os.environ.get("REPO", "/repo")
ENV = dict(os.environ, PYTHONPATH=f"/root/scratch/site:{REPO}")
PY = "/venv/bin/python"
W = "/root/scratch/swe"
def cmd(args, crash=None, log=None, root=None):
    env = dict(ENV)
    if crash is not None: env["VERIF_CRASH_AT"] = crash
    if log: env["VERIF_AUDIT_LOG"] = log
    if root: env["VERIF_AUDIT_ROOT"] = root
    return subprocess.run([PY, "-m", "bio2zarr", "vcf2zarr", *args], env=env, capture_output=True, text=True).returncode
SNAP = r'''
import sys, json, os, zarr, numpy as np
p = sys.argv[1]
out = {"finished": os.path.exists(os.path.join(p, ".zmetadata"))}
if out["finished"]:
    try:
        r = zarr.open_consolidated(p, mode="r"); vals = {}
        for k in sorted(r.array_keys()):
            x = r[k][:]
            if x.dtype.kind == "f": x = x.view(np.int32)
            vals[k] = json.dumps(x.tolist())
        out["values"] = vals
    except Exception as e:
        out["values"] = "ERR:" + type(e).__name__
    files = []
    for root, dirs, fs in os.walk(p):
        for f in fs: files.append(os.path.relpath(os.path.join(root, f), p))
    out["files"] = sorted(files)
print(json.dumps(out, sort_keys=True))
'''
def snap(path):
    r = subprocess.run([PY, "-c", SNAP, path], env=ENV, capture_output=True, text=True)
    return json.loads(r.stdout.strip().splitlines()[-1])
def one(job):
    name, base, argt, recover, k, tear = job
    d = f"{W}/w_{name}_{k}_{tear}"
    shutil.rmtree(d, ignore_errors=True); shutil.copytree(base, d)
    sub = lambda a: [x.replace("@", d) for x in a]
    rc = cmd(sub(argt), crash=str(k) if tear is None else f"{k}:{tear}", root=d)
    ref = json.load(open(f"{W}/ref.json"))
    out = []
    s1 = snap(d)
    if s1["finished"] and (s1.get("values") != ref["values"] or s1.get("files") != ref["files"]):
        out.append("FINISHED-BUT-DIFFERENT" if s1.get("values") != ref["values"] else "FINISHED-EXTRA-FILES")
    if name.startswith("partition"):
        rc2 = cmd(sub(["dencode-finalise", "@", "-Q"]))
        s2 = snap(d)
        if rc2 == 0:
            if s2.get("values") != ref["values"]: out.append("FINALISE-ACCEPTED-INCOMPLETE")
            elif s2.get("files") != ref["files"]: out.append("FINALISE-ACCEPTED-STRAY:" + str(sorted(set(s2["files"]) ^ set(ref["files"]))[:2]))
            else: out.append("finalise-accepted-and-correct")
            shutil.rmtree(d, ignore_errors=True); return (name, k, tear, out)
        shutil.rmtree(d, ignore_errors=True); shutil.copytree(base, d)
        cmd(sub(argt), crash=str(k) if tear is None else f"{k}:{tear}", root=d)
    rcs = [cmd(sub(a)) for a in recover]
    s3 = snap(d)
    if s3["finished"] and s3.get("values") == ref["values"]:
        out.append("recovered" if s3.get("files") == ref["files"] else "recovered-STRAY:" + str(sorted(set(s3["files"]) ^ set(ref["files"]))[:2]))
    elif s3["finished"]: out.append("RECOVERY-WRONG-VALUES")
    else: out.append("not-finished rcs=%s" % rcs)
    shutil.rmtree(d, ignore_errors=True)
    return (name, k, tear, out)
def count_muts(argt, base):
    d = f"{W}/cnt"; shutil.rmtree(d, ignore_errors=True); shutil.copytree(base, d)
    log = f"{W}/cnt.log"
    if os.path.exists(log): os.remove(log)
    cmd([x.replace("@", d) for x in argt], log=log, root=d)
    n = sum(1 for _ in open(log)); shutil.rmtree(d); return n
def main():
    vcf = "/repo/tests/data/vcf/sample.vcf.gz"
    shutil.rmtree(W, ignore_errors=True); os.makedirs(W)
    cmd(["explode", vcf, f"{W}/icf", "-Q", "-p", "0"])
    assert cmd(["dencode-init", f"{W}/icf", f"{W}/refd", "-n", "3", "-l", "3", "-w", "2", "-Q"]) == 0
    for j in range(3): cmd(["dencode-partition", f"{W}/refd", str(j)])
    cmd(["dencode-finalise", f"{W}/refd", "-Q"])
    json.dump(snap(f"{W}/refd"), open(f"{W}/ref.json", "w"))
    assert cmd(["dencode-init", f"{W}/icf", f"{W}/b0", "-n", "3", "-l", "3", "-w", "2", "-Q"]) == 0
    shutil.copytree(f"{W}/b0", f"{W}/b1")
    for j in (0, 2): assert cmd(["dencode-partition", f"{W}/b1", str(j)]) == 0
    shutil.copytree(f"{W}/b1", f"{W}/b2"); assert cmd(["dencode-partition", f"{W}/b2", "1"]) == 0
    jobs = []
    for name, base, argt, recover in [
        ("partition1", f"{W}/b1", ["dencode-partition", "@", "1"], [["dencode-partition", "@", "1"], ["dencode-finalise", "@", "-Q"]]),
        ("partition1-rerun", f"{W}/b2", ["dencode-partition", "@", "1"], [["dencode-partition", "@", "1"], ["dencode-finalise", "@", "-Q"]]),
        ("finalise", f"{W}/b2", ["dencode-finalise", "@", "-Q"], [["dencode-finalise", "@", "-Q"]]),
    ]:
        n = count_muts(argt, base); print(name, "mutations", n, flush=True)
        step = int(os.environ.get("STEP", "1"))
        for k in range(0, n, step):
            for tear in (None, "0"):
                jobs.append((name, base, argt, recover, k, tear))
    res = collections.Counter(); detail = collections.defaultdict(list)
    with multiprocessing.Pool(14) as pool:
        for name, k, tear, out in pool.imap_unordered(one, jobs):
            key = (name, tuple(o.split(":")[0] for o in out)); res[key] += 1; detail[key].append((k, tear, out))
    for k, v in sorted(res.items(), key=str): print(v, k, detail[k][:3])
if __name__ == "__main__":
    main()
