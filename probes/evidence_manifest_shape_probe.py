import json, jsonschema
schema = json.load(open("/root/.vp/EVIDENCE.schema.json"))
ev = {
 "property_id": "C11", "tier": "quick", "seed": 0, "level": "proof",
 "coverage": {
   "obligations": 5, "discharged": 5,
   "checker_cmd": "make -C coq -j16 Props/C11.vo  (coqc 8.16.1; Print Assumptions parsed)",
   "trusted_base": ["Coq 8.16.1 kernel (vm_compute used, native_compute not)", "translator/py2coq.py", "ExtrOcamlBasic extraction + extract/driver.ml", "Base/NumpyPrims.v as the meaning of np.array_split / np.ceil(a/b) (nr < 2^53)"],
   "theorems": ["generate_partitions_cover", "chunk_aligned_slices_cover", "no_chunk_shared", "gen_generate_partitions_eq", "gen_chunk_aligned_slices_eq"],
   "assumptions_reported": {"generate_partitions_cover": "Closed under the global context"},
   "evaluations": 9680, "distinct_nontrivial": 7411, "rule": "exhaustive box 1..24 x 1..8 x 1..8 x {None,1,2,3,5} plus 2000 random tuples up to 1e10; non-trivial = more than one partition or a capped/partial last chunk; distinct by tuple",
   "samples": [{"num_records": 23, "chunk_size": 5, "num_partitions": 3, "max_chunks": None, "impl": [[0, 10], [10, 20], [20, 23]], "model": [[0, 10], [10, 20], [20, 23]]}],
   "traces_validated_against_impl": 9680, "exhaustive": False,
   "distribution": {"num_partitions_out": {"1": 2100, "2": 1900}}
 },
 "assumptions": ["Python int true division + np.ceil equals exact ceildiv for num_records < 2^53"],
 "wall_s": 54.1, "violations": 0
}
jsonschema.validate(ev, schema); print("evidence sample validates")
man = json.load(open("/root/.vp/MANIFEST.schema.json"))
m = {"version": 1, "setup_cmd": "make -C coq -j16 && make -C extract", "hooks": {"guard": "BIO2ZARR_VERIF (unused: no source hooks)", "enable": "none needed; tracing is external via harness/fsaudit/sitecustomize.py on PYTHONPATH", "baseline_off_cmd": "cd /repo && /venv/bin/python -m pytest -ra -q -p no:cacheprovider --timeout=900 --continue-on-collection-errors", "source_commits": [], "add_only": True},
     "checks": [{"property_id": "C11", "quick_cmd": "./check C11 --tier quick", "thorough_cmd": "./check C11 --tier thorough", "evidence_file": "/verif/evidence/C11.json", "replay_cmd_template": "./check C11 --replay {path}", "engine": "coq+correspondence",
                 "level_claimed": {"category": "proof", "text": "...", "design_ref": "DESIGN.md §4 C11"}, "level_note": "...", "technique": "Coq theorem on translated source + differential run"}],
     "not_applicable": []}
jsonschema.validate(m, man); print("manifest sample validates")
