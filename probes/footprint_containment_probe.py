import os, re, subprocess, shutil, collections, sys
PY = "/venv/bin/python"
os.chdir("/root/scratch/clip")
for d in ("t.icf", "t.vcz"): shutil.rmtree(d, ignore_errors=True)
log = "/root/scratch/clip/fp.log"
if os.path.exists(log): os.remove(log)
# log lines lack pid in the new hook: run each partition as its own process, as a cluster would
env = dict(os.environ, PYTHONPATH="/root/scratch/site:/repo", VERIF_AUDIT_ROOT="/root/scratch/clip/t.")
def run(args, tag):
    e = dict(env, VERIF_AUDIT_LOG=f"/root/scratch/clip/fp_{tag}.log")
    if os.path.exists(e["VERIF_AUDIT_LOG"]): os.remove(e["VERIF_AUDIT_LOG"])
    return subprocess.Popen([PY, "-m", "bio2zarr", "vcf2zarr", *args], env=e)
VCF = "/root/scratch/clip/fp.vcf.gz"
subprocess.run([PY, "-m", "bio2zarr", "vcf2zarr", "dexplode-init", VCF, "t.icf", "-n", "6", "-Q"], env=dict(os.environ, PYTHONPATH="/repo"), capture_output=True)
import json
n = len(json.load(open("t.icf/wip/metadata.json"))["partitions"])
ps = [run(["dexplode-partition", "t.icf", str(j)], f"x{j}") for j in range(n)]     # truly concurrent
[p.wait() for p in ps]
subprocess.run([PY, "-m", "bio2zarr", "vcf2zarr", "dexplode-finalise", "t.icf"], env=dict(os.environ, PYTHONPATH="/repo"))
out = subprocess.run([PY, "-m", "bio2zarr", "vcf2zarr", "dencode-init", "t.icf", "t.vcz", "-n", "5", "-l", "3", "-Q", "--json"], env=dict(os.environ, PYTHONPATH="/repo"), capture_output=True, text=True).stdout
m = json.loads(out)["num_partitions"]
ps = [run(["dencode-partition", "t.vcz", str(j)], f"e{j}") for j in range(m)]
[p.wait() for p in ps]
bad = 0
def paths(tag):
    for line in open(f"/root/scratch/clip/fp_{tag}.log"):
        _, ev, rest = line.rstrip("\n").split("\t", 2)
        for p in rest.split(" -> "): yield ev, os.path.relpath(p, "/root/scratch/clip")
for j in range(n):
    for ev, p in paths(f"x{j}"):
        ok = re.fullmatch(rf"t\.icf/(wip/p{j}\.json|(CHROM|POS|QUAL|ID|FILTERS|REF|ALT|rlen|INFO/\w+|FORMAT/\w+)/p{j}(/(\d+|chunk_index))?)", p)
        if not ok: bad += 1; print("explode", j, ev, p)
for j in range(m):
    for ev, p in paths(f"e{j}"):
        ok = re.fullmatch(rf"t\.vcz/wip/partitions/(wip_p{j}|p{j})(/.*)?", p)
        if not ok: bad += 1; print("encode", j, ev, p)
print("explode tasks", n, "encode tasks", m, "mutations outside the private footprint:", bad)
