"""probe: crash sweep of the distributed explode protocol (prototype of the C05 crash correspondence)"""
import os, sys, shutil, subprocess, json, collections
REPO = os.environ.get("REPO", "/repo")
ENV = dict(os.environ, PYTHONPATH=f"/root/scratch/site:{REPO}")
PY = "/venv/bin/python"
def cmd(args, crash=None, log=None, root=None):
    env = dict(ENV)
    if crash is not None: env["VERIF_CRASH_AT"] = crash
    if log: env["VERIF_AUDIT_LOG"] = log
    if root: env["VERIF_AUDIT_ROOT"] = root
    return subprocess.run([PY, "-m", "bio2zarr", "vcf2zarr", *args], env=env, capture_output=True, text=True).returncode
SNAP = r'''
import sys, json
from bio2zarr import vcf2zarr
try:
    s = vcf2zarr.IntermediateColumnarFormat(sys.argv[1])
except Exception as e:
    print(json.dumps({"loads": False})); raise SystemExit
out = {"loads": True, "n": s.num_records}
try:
    out["values"] = {k: [None if v is None else v.tolist() for v in f.values] for k, f in s.items()}
except Exception as e:
    out["values"] = "ERR:" + type(e).__name__
print(json.dumps(out, sort_keys=True))
'''
def snap(path):
    r = subprocess.run([PY, "-c", SNAP, path], env=ENV, capture_output=True, text=True)
    return json.loads(r.stdout.strip().splitlines()[-1])
def count_muts(args, base, root):
    shutil.rmtree("sw", ignore_errors=True); shutil.copytree(base, "sw")
    if os.path.exists("sw.log"): os.remove("sw.log")
    cmd(args, log="sw.log", root=root)
    return sum(1 for _ in open("sw.log"))
def main():
    vcf = sys.argv[1] if len(sys.argv) > 1 else "/repo/tests/data/vcf/sample.vcf.gz"
    for d in ("b0", "b1", "ref"): shutil.rmtree(d, ignore_errors=True)
    # reference
    cmd(["explode", vcf, "ref", "-Q", "-p", "0"]); ref = snap("ref")
    assert cmd(["dexplode-init", vcf, "b0", "-n", "3", "-Q"]) == 0
    nparts = 3
    res = collections.Counter(); anomalies = []
    # base1: init + partitions 0 and 2 done; partition 1 to be crashed
    shutil.copytree("b0", "b1")
    for j in (0, 2): assert cmd(["dexplode-partition", "b1", str(j)]) == 0
    # base2: all partitions done; finalise to be crashed
    shutil.copytree("b1", "b2_tmp"); shutil.rmtree("b2", ignore_errors=True); os.rename("b2_tmp", "b2")
    assert cmd(["dexplode-partition", "b2", "1"]) == 0
    for name, base, args, recover in [
        ("partition1", "b1", ["dexplode-partition", "sw", "1"], [["dexplode-partition", "sw", "1"], ["dexplode-finalise", "sw"]]),
        ("partition1-rerun", "b2", ["dexplode-partition", "sw", "1"], [["dexplode-partition", "sw", "1"], ["dexplode-finalise", "sw"]]),
        ("finalise", "b2", ["dexplode-finalise", "sw"], [["dexplode-finalise", "sw"]]),
    ]:
        n = count_muts(args, base, os.path.abspath("sw"))
        for k in range(n):
            for tear in (None, "0", "h"):
                shutil.rmtree("sw", ignore_errors=True); shutil.copytree(base, "sw")
                rc = cmd(args, crash=str(k) if tear is None else f"{k}:{tear}", root=os.path.abspath("sw"))
                s1 = snap("sw")
                # safety: if it loads, values must equal the reference
                if s1["loads"] and s1.get("values") != ref["values"]:
                    anomalies.append((name, k, tear, "LOADS-BUT-DIFFERENT", str(s1.get("values"))[:80])); res[(name, "UNSAFE")] += 1
                # out-of-order finalise on a crashed partition must refuse
                if name.startswith("partition"):
                    rc2 = cmd(["dexplode-finalise", "sw"])
                    s2 = snap("sw")
                    if rc2 == 0 and s2.get("values") != ref["values"]:
                        anomalies.append((name, k, tear, "FINALISE-ACCEPTED-INCOMPLETE")); res[(name, "UNSAFE-FINALISE")] += 1
                    if rc2 == 0: res[(name, "finalise-accepted-and-correct")] += 1; continue
                # recovery
                rcs = [cmd(a) for a in recover]
                s3 = snap("sw")
                ok = s3["loads"] and s3.get("values") == ref["values"]
                extra = sorted(set(os.listdir("sw")) - set(os.listdir("ref")))
                res[(name, "recovered" if ok else "not-recovered", tuple(rcs), tuple(extra))] += 1
                if not ok and not (name == "finalise"): anomalies.append((name, k, tear, "NOT-RECOVERED", rcs))
        print(name, "mutations", n)
    for k, v in sorted(res.items(), key=str): print(v, k)
    print("ANOMALIES", len(anomalies)); [print("  ", a) for a in anomalies[:20]]
main()
