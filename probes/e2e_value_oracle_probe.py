"""Design-phase probe: independent value-level oracle for VCF -> VCZ (prototype of Spec.v semantics)."""
import sys, os, random, shutil, struct, math, json, traceback, collections
sys.path.insert(0, os.path.dirname(os.path.abspath(__file__)))
import numpy as np
from mk import write_vcf, index

F32_MISSING, F32_FILL = 0x7F800001, 0x7F800002
INT_BOUNDS = [0, 1, -1, -2, -3, 126, 127, 128, -127, -128, -129, 32766, 32767, 32768, -32768, -32769, 2**31 - 1, -2147483640, 5, 17, 100]
F32_POOL = [0.0, 1.0, -1.0, 0.5, 1.5, 0.1, 3.14159274, 1e-38, 1e-45, 3.4028235e38, -3.4028235e38, 123456.789, float("inf"), float("-inf"), 2.5e-7]

def f32bits(x):
    return struct.unpack("<I", struct.pack("<f", x))[0]

def f32str(x):
    if math.isinf(x): return "inf" if x > 0 else "-inf"
    v = struct.unpack("<f", struct.pack("<f", x))[0]
    return "%.9g" % v

def min_int_dtype(lo, hi):
    for t, b in (("i1", 7), ("i2", 15), ("i4", 31), ("i8", 63)):
        if -(1 << b) <= lo and hi <= (1 << b) - 1: return t
    raise OverflowError

TYPES = ["Integer", "Float", "Character", "String", "Flag"]

def number_count(n, nalt, rnd, ploidy=2):
    if n == "0": return 0
    if n == "1": return 1
    if n == "2": return 2
    if n == "3": return 3
    if n == "A": return nalt
    if n == "R": return nalt + 1
    if n == "G": return (nalt + 1) * (nalt + 2) // 2
    return rnd.randint(1, 4)

def gen_scalar(t, rnd):
    if t == "Integer": return rnd.choice(INT_BOUNDS) if rnd.random() < 0.5 else rnd.randint(-300, 300)
    if t == "Float": return rnd.choice(F32_POOL)
    if t == "Character": return rnd.choice("abcXYZ019")
    return rnd.choice(["s", "foo", "Bar_1", "x-y", "longer_string_value", "0", "A|B"])

def gen_case(seed):
    rnd = random.Random(seed)
    ncontigs = rnd.randint(1, 4)
    with_len = rnd.random() < 0.7
    contigs = [("ctg%d" % i if rnd.random() < 0.7 else "%d" % (i + 1), 1000000 + i if with_len else None) for i in range(ncontigs)]
    used = sorted(rnd.sample(range(ncontigs), rnd.randint(1, ncontigs)))
    filters = ["PASS"] + ["f%d" % i for i in range(rnd.randint(0, 3))]
    pass_pos = rnd.randint(0, len(filters) - 1)   # header order may put PASS anywhere
    hdr_filters = filters[1:]; hdr_filters.insert(pass_pos, "PASS")
    ns = rnd.randint(0, 4)
    samples = ["S%d" % i for i in range(ns)]
    infos, fmts = [], []
    for i in range(rnd.randint(0, 6)):
        t = rnd.choice(TYPES)
        n = "0" if t == "Flag" else rnd.choice(["1", "2", "A", "R", "G", ".", "3"])
        infos.append(("I%d%s" % (i, t[0]), n, t))
    has_gt = ns > 0 and rnd.random() < 0.8
    if ns > 0:
        for i in range(rnd.randint(0, 5)):
            t = rnd.choice(TYPES[:4])
            n = rnd.choice(["1", "2", "A", "R", "G", ".", "3"])
            fmts.append(("F%d%s" % (i, t[0]), n, t))
        if not fmts: has_gt = True
    gt_always = True or rnd.random() < 0.8      # most files carry GT in every record (records without GT hit F10)
    max_ploidy = rnd.choice([1, 2, 2, 2, 3])
    recs = []
    for c in used:
        pos = rnd.randint(1, 200)
        for _ in range(rnd.randint(1, 12)):
            nalt = rnd.choice([0, 1, 1, 1, 2, 2, 3])
            r = dict(contig=c, pos=pos, id=None if rnd.random() < 0.5 else "rs%d" % rnd.randint(1, 99),
                     ref="".join(rnd.choice("ACGT") for _ in range(rnd.randint(1, 3))),
                     alts=["".join(rnd.choice("ACGT") for _ in range(rnd.randint(1, 3))) for _ in range(nalt)],
                     qual=None if rnd.random() < 0.3 else rnd.choice([0.0, 1.0, 12.5, 99.0, 3.25, 1e-3]),
                     filters=None if rnd.random() < 0.3 else (["PASS"] if rnd.random() < 0.5 or len(filters) == 1 else rnd.sample(filters[1:], rnd.randint(1, len(filters) - 1))),
                     info={}, fmt_keys=[], fmt={}, gt=None)
            for k, n, t in infos:
                u = rnd.random()
                if u < 0.3: continue
                if t == "Flag": r["info"][k] = True; continue
                cnt = number_count(n, nalt, rnd)
                if cnt == 0: continue
                vals = [None if rnd.random() < 0.15 else gen_scalar(t, rnd) for _ in range(cnt)]
                r["info"][k] = vals
            if ns > 0:
                keys = [f for f in fmts if rnd.random() < 0.7]
                if has_gt and (gt_always or not fmts or rnd.random() < 0.8):
                    r["gt"] = []
                    for s in range(ns):
                        pl = rnd.randint(1, max_ploidy) if rnd.random() < 0.2 else max_ploidy
                        alleles = [None if rnd.random() < 0.15 else rnd.randint(0, nalt) for _ in range(pl)]
                        r["gt"].append((alleles, rnd.random() < 0.5))
                if r["gt"] is None and not keys:
                    keys = [fmts[0]]
                r["fmt_keys"] = keys
                for k, n, t in keys:
                    per = []
                    for s in range(ns):
                        u = rnd.random()
                        if u < 0.15: per.append(None); continue       # '.' for this sample
                        cnt = number_count(n, nalt, rnd)
                        if cnt == 0: per.append(None); continue
                        per.append([None if rnd.random() < 0.15 else gen_scalar(t, rnd) for _ in range(cnt)])
                    r["fmt"][k] = per
                # trailing keys dropped for some samples
                r["drop"] = [rnd.randint(0, len(keys)) if rnd.random() < 0.2 else 0 for _ in range(ns)]
            recs.append(r)
            pos += rnd.choice([0, 1, 1, 5, 50, 1000, 40000])
    return dict(contigs=contigs, hdr_filters=hdr_filters, samples=samples, infos=infos, fmts=fmts, has_gt=has_gt, recs=recs, seed=seed)

def sval(t, v):
    if v is None: return "."
    if t == "Float": return f32str(v)
    return str(v)

def to_text(case, path):
    hdr = []
    for name, ln in case["contigs"]:
        hdr.append("##contig=<ID=%s%s>" % (name, ",length=%d" % ln if ln else ""))
    for f in case["hdr_filters"]:
        hdr.append('##FILTER=<ID=%s,Description="filter %s">' % (f, f))
    for k, n, t in case["infos"]:
        hdr.append('##INFO=<ID=%s,Number=%s,Type=%s,Description="info %s">' % (k, n, t, k))
    if case["has_gt"]:
        hdr.append('##FORMAT=<ID=GT,Number=1,Type=String,Description="Genotype">')
    for k, n, t in case["fmts"]:
        hdr.append('##FORMAT=<ID=%s,Number=%s,Type=%s,Description="fmt %s">' % (k, n, t, k))
    lines = []
    types = {k: t for k, n, t in case["infos"] + case["fmts"]}
    for r in case["recs"]:
        info = []
        for k, n, t in case["infos"]:
            if k in r["info"]:
                v = r["info"][k]
                info.append(k if v is True else k + "=" + ",".join(sval(t, x) for x in v))
        cols = [case["contigs"][r["contig"]][0], str(r["pos"]), r["id"] or ".", r["ref"], ",".join(r["alts"]) or ".",
                "." if r["qual"] is None else f32str(r["qual"]), "." if r["filters"] is None else ";".join(r["filters"]), ";".join(info) or "."]
        if case["samples"]:
            keys = (["GT"] if r["gt"] is not None else []) + [k for k, n, t in r["fmt_keys"]]
            cols.append(":".join(keys))
            for s in range(len(case["samples"])):
                parts = []
                if r["gt"] is not None:
                    al, ph = r["gt"][s]
                    parts.append(("|" if ph else "/").join("." if a is None else str(a) for a in al))
                for k, n, t in r["fmt_keys"]:
                    v = r["fmt"][k][s]
                    parts.append("." if v is None else ",".join(sval(t, x) for x in v))
                d = r["drop"][s]
                if d and len(parts) - d >= 1: parts = parts[: len(parts) - d]
                cols.append(":".join(parts))
        lines.append("\t".join(cols))
    write_vcf(path, hdr, lines, case["samples"])

DONTCARE = object()

def expected(case):
    """Arrays as nested python lists of ints (float bits) / strings / bools. DONTCARE marks unspecified cells."""
    recs = sorted(case["recs"], key=lambda r: r["contig"])   # stable: header contig order then file order
    m, ns = len(recs), len(case["samples"])
    filters = ["PASS"] + [f for f in case["hdr_filters"] if f != "PASS"]
    out, dt, dims = {}, {}, {}
    out["contig_id"] = [c for c, _ in case["contigs"]]
    if all(l is not None for _, l in case["contigs"]): out["contig_length"] = [l for _, l in case["contigs"]]
    out["filter_id"] = filters; out["sample_id"] = list(case["samples"])
    out["variant_contig"] = [r["contig"] for r in recs]; dt["variant_contig"] = min_int_dtype(0, len(case["contigs"]))
    out["variant_position"] = [r["pos"] for r in recs]; dt["variant_position"] = min_int_dtype(min(out["variant_position"]), max(out["variant_position"]))
    out["variant_length"] = [len(r["ref"]) for r in recs]; dt["variant_length"] = min_int_dtype(min(out["variant_length"]), max(out["variant_length"]))
    out["variant_id"] = [r["id"] or "." for r in recs]; out["variant_id_mask"] = [r["id"] is None for r in recs]
    ma = max(len(r["alts"]) for r in recs) + 1
    out["variant_allele"] = [[r["ref"]] + r["alts"] + [""] * (ma - 1 - len(r["alts"])) for r in recs]
    out["variant_quality"] = [F32_MISSING if r["qual"] is None else f32bits(r["qual"]) for r in recs]
    out["variant_filter"] = [[(r["filters"] is not None and f in r["filters"]) for f in filters] for r in recs]
    def enc(t, v, missing=False):
        if t == "Integer": return -1 if v is None else v
        if t == "Float": return F32_MISSING if v is None else f32bits(v)
        return "." if v is None else str(v)
    def fillv(t): return {"Integer": -2, "Float": F32_FILL}.get(t, "")
    def missv(t): return {"Integer": -1, "Float": F32_MISSING}.get(t, ".")
    def int_dtype(vals):
        vals = [v for v in vals if v is not None]
        return "i1" if not vals else min_int_dtype(min(vals), max(vals))
    for k, n, t in case["infos"]:
        name = "variant_" + k
        if t == "Flag":
            out[name] = [k in r["info"] for r in recs]; dt[name] = "bool"; continue
        rows = [r["info"].get(k) for r in recs]
        # an INFO value consisting solely of '.' : cyvcf2 reports absent for numeric types
        def whole_missing(v): return v is not None and len(v) == 1 and v[0] is None
        w = max([len(v) for v in rows if v is not None and not (whole_missing(v) and t in ("Integer", "Float"))] + [0])
        arr = []
        for v in rows:
            if v is None or (whole_missing(v) and t in ("Integer", "Float")):
                row = [missv(t)] * max(w, 1)
            else:
                row = [enc(t, x) for x in v] + [fillv(t)] * (w - len(v))
                if whole_missing(v): row = [missv(t)] + [DONTCARE] * (w - 1)
            arr.append(row if w > 1 else row[0])
        out[name] = arr
        if t == "Integer": dt[name] = int_dtype([x for v in rows if v is not None for x in v])
        elif t == "Float": dt[name] = "f4"
    if ns:
        for k, n, t in case["fmts"]:
            name = "call_" + k
            def eff(r, s):
                if k not in r["fmt"]: return "absent"
                keys = (["GT"] if r["gt"] is not None else []) + [kk for kk, _, _ in r["fmt_keys"]]
                idx = keys.index(k); d = r["drop"][s]
                if d and len(keys) - d >= 1 and idx >= len(keys) - d: return None
                return r["fmt"][k][s]
            widths = []
            for r in recs:
                if k in r["fmt"]:
                    vs = [eff(r, s) for s in range(ns)]
                    widths.append(max([len(v) for v in vs if v is not None] + [1]))
            if not widths:
                w = 0
            else: w = max(widths)
            arr = []
            for r in recs:
                if k not in r["fmt"]:
                    arr.append([[missv(t)] * max(w, 1) if w > 1 else missv(t) for s in range(ns)]); continue
                row = []
                for s in range(ns):
                    v = eff(r, s)
                    if v is None: cells = [missv(t)] + [fillv(t)] * (max(w, 1) - 1)
                    else: cells = [enc(t, x) for x in v] + [fillv(t)] * (w - len(v))
                    row.append(cells if w > 1 else cells[0])
                arr.append(row)
            out[name] = arr
            if t == "Integer": dt[name] = int_dtype([x for r in recs if k in r["fmt"] for v in r["fmt"][k] if v is not None for x in v])
            elif t == "Float": dt[name] = "f4"
        if case["has_gt"]:
            pl = max([len(al) for r in recs if r["gt"] is not None for al, _ in r["gt"]] + [1])
            g, ph = [], []
            for r in recs:
                if r["gt"] is None:
                    g.append([[-1] * pl for _ in range(ns)]); ph.append([False] * ns); continue
                rowp = max(len(al) for al, _ in r["gt"])
                g.append([[(-1 if a is None else a) for a in al] + [-2] * (pl - len(al)) for al, _ in r["gt"]])
                ph.append([(p if len(al) >= 2 else DONTCARE) for al, p in r["gt"]])
            out["call_genotype"] = g; out["call_genotype_phased"] = ph
            out["call_genotype_mask"] = [[[a < 0 for a in c] for c in row] for row in g]
    return out, dt

def flatten(x):
    if isinstance(x, list):
        for y in x: yield from flatten(y)
    else: yield x

def compare(case, store_path):
    import zarr
    root = zarr.open(store_path, mode="r")
    exp, dt = expected(case)
    problems = []
    got_keys = set(root.array_keys()) - {"region_index"}
    # arrays whose every record lacks the field still exist (all missing)
    if got_keys != set(exp): problems.append(("ARRAYS", sorted(got_keys ^ set(exp))))
    for k in sorted(set(exp) & got_keys):
        a = root[k]; x = a[:]
        if x.dtype.kind == "f": x = x.view(np.int32).astype(np.int64) & 0xFFFFFFFF
        g = list(flatten(x.tolist())); e = list(flatten(exp[k]))
        if len(g) != len(e): problems.append(("SHAPE", k, a.shape, len(e))); continue
        for i, (p, q) in enumerate(zip(g, e)):
            if q is DONTCARE: continue
            if p == '' and q == '.': continue   # F11
            if p != q and not (isinstance(q, bool) and bool(p) == q):
                problems.append(("VALUE", k, i, p, q)); break
        if k in dt and str(a.dtype.str).lstrip("<|") != dt[k].replace("bool", "b1"):
            problems.append(("DTYPE", k, a.dtype.str, dt[k]))
    return problems

def run_case(seed, work):
    from bio2zarr import vcf2zarr
    case = gen_case(seed)
    rnd = random.Random(seed * 7 + 1)
    path = os.path.join(work, "c%d.vcf" % seed)
    to_text(case, path)
    kind = rnd.choice(["tbi", "csi"]); bcf = rnd.random() < 0.3
    p = index(path, kind=kind, min_shift=rnd.choice([9, 12, 14]), bcf=bcf)
    out = os.path.join(work, "c%d.vcz" % seed); icf = os.path.join(work, "c%d.icf" % seed)
    shutil.rmtree(out, ignore_errors=True); shutil.rmtree(icf, ignore_errors=True)
    res = {"seed": seed, "kind": kind, "bcf": bcf, "m": len(case["recs"]), "ns": len(case["samples"])}
    try:
        vcf2zarr.convert([p], out, icf_path=icf, worker_processes=0,
                         variants_chunk_size=rnd.choice([None, 1, 3, 7]), samples_chunk_size=rnd.choice([None, 1, 2]))
    except Exception as e:
        res["error"] = "%s: %s" % (type(e).__name__, str(e)[:200]); res["tb"] = traceback.format_exc().splitlines()[-6:]
        return res, case
    res["problems"] = compare(case, out)
    return res, case

if __name__ == "__main__":
    work = sys.argv[3] if len(sys.argv) > 3 else "/root/scratch/ow"
    os.makedirs(work, exist_ok=True)
    cnt = collections.Counter()
    for seed in range(int(sys.argv[1]), int(sys.argv[2])):
        try:
            res, case = run_case(seed, work)
        except Exception as e:
            print(seed, "HARNESS-ERR", type(e).__name__, e); traceback.print_exc(); cnt["harness"] += 1; continue
        if "error" in res:
            cnt["error:" + res["error"][:60]] += 1; print(seed, "ERROR", res["error"]); print("   ", res["tb"][-3:])
        elif res["problems"]:
            cnt["problems:" + str(res["problems"][0][:2])] += 1; print(seed, res["kind"], res["bcf"], "PROBLEMS", res["problems"][:3])
        else: cnt["ok"] += 1
        for f in os.listdir(work):
            if f.startswith("c%d." % seed):
                fp = os.path.join(work, f)
                shutil.rmtree(fp) if os.path.isdir(fp) else os.remove(fp)
    for k, v in cnt.most_common(): print(v, k)
