From Coq Require Import Arith List Bool Lia Permutation.
Import ListNotations.

(* ================= C14: wait_on_futures / ParallelWorkManager ================= *)
Inductive outcome := Done | Raised (e : nat) | Broken.
Inductive result := Ok | ErrReraise (e : nat) | ErrRuntime.      (* RuntimeError("Worker process died ...") *)

(* for future in as_completed(futures): exc = future.exception(); if exc is not None: cancel; raise ... *)
Fixpoint wait_on_futures (completed : list outcome) : result :=
  match completed with
  | [] => Ok
  | Done :: tl => wait_on_futures tl
  | Raised e :: _ => ErrReraise e
  | Broken :: _ => ErrRuntime
  end.
(* __exit__: no exception in the body -> wait; else cancel and propagate the body's exception *)
Definition pwm_exit (body_exc : option nat) (completed : list outcome) : result :=
  match body_exc with None => wait_on_futures completed | Some e => ErrReraise e end.
(* driver = init; with pwm: submit all; finalise  -- finalise only runs if the with-block returned normally *)
Definition driver (completed : list outcome) : result * bool (* finalise ran *) :=
  match pwm_exit None completed with Ok => (Ok, true) | r => (r, false) end.

Theorem success_implies_all_done completed : wait_on_futures completed = Ok -> Forall (fun o => o = Done) completed.
Proof. induction completed as [|[|e|] tl IH]; simpl; intros H; try discriminate; constructor; auto. Qed.

(* any completion order (as_completed yields a permutation of the submitted tasks' outcomes) *)
Theorem any_failure_errors submitted completed : Permutation submitted completed ->
  (exists o, In o submitted /\ o <> Done) -> wait_on_futures completed <> Ok.
Proof.
  intros P [o [Hin Hne]] H. apply success_implies_all_done in H. rewrite Forall_forall in H.
  apply Hne. apply H. eapply Permutation_in; eauto.
Qed.
Theorem no_finalise_after_error submitted completed : Permutation submitted completed ->
  (exists o, In o submitted /\ o <> Done) -> snd (driver completed) = false.
Proof.
  intros P F. unfold driver, pwm_exit. pose proof (any_failure_errors _ _ P F).
  destruct (wait_on_futures completed); simpl; congruence.
Qed.
Theorem all_done_succeeds completed : Forall (fun o => o = Done) completed -> driver completed = (Ok, true).
Proof. unfold driver, pwm_exit. induction 1 as [|o tl -> _ IH]; simpl; auto. Qed.

(* ================= C18: damaged intermediate store ================= *)
Section Damage.
Variables (bytes value : Type).
Variable decode : bytes -> option (list value).      (* Blosc decode + unpickle of a chunk *)
Variable decode_index : bytes -> option (list nat).   (* unpickle of chunk_index *)
Variable prefix_of : bytes -> bytes -> Prop.           (* strict prefix (including empty) *)
Hypothesis decode_rejects_prefix : forall b b', prefix_of b' b -> decode b <> None -> decode b' = None.
Hypothesis index_rejects_prefix : forall b b', prefix_of b' b -> decode_index b <> None -> decode_index b' = None.

(* one partition of one field: chunk_index file + chunk files; None = file missing *)
Record pstore := { idx : option bytes; chunks : list (option bytes) }.

Fixpoint read_chunks (counts : list nat) (cs : list (option bytes)) : option (list value) :=
  match counts, cs with
  | [], _ => Some []
  | n :: counts', Some b :: cs' =>
      match decode b with
      | Some vs => if Nat.eqb (length vs) n            (* "Corruption detected in chunk" *)
                   then match read_chunks counts' cs' with Some r => Some (vs ++ r) | None => None end
                   else None
      | None => None end
  | _, _ => None
  end.
Fixpoint diffs (cum : list nat) : list nat := match cum with a :: ((b :: _) as tl) => (b - a) :: diffs tl | _ => [] end.
Definition read_partition (p : pstore) : option (list value) :=
  match idx p with
  | Some ib => match decode_index ib with
               | Some cum => if (1 <? length cum) && Nat.eqb (hd 1 cum) 0      (* assert len(a) > 1; assert a[0] == 0 *)
                             then read_chunks (diffs cum) (chunks p) else None
               | None => None end
  | None => None
  end.

Inductive damage_of : option bytes -> option bytes -> Prop :=
| deleted b : damage_of (Some b) None
| truncated b b' : prefix_of b' b -> damage_of (Some b) (Some b').

Lemma read_chunks_damage counts : forall cs cs' k b d vs,
  read_chunks counts cs = Some vs -> (k < length counts)%nat ->
  nth_error cs k = Some b -> damage_of b d ->
  cs' = firstn k cs ++ d :: skipn (S k) cs -> read_chunks counts cs' = None.
Proof.
  induction counts as [|n counts IH]; intros cs cs' k b d vs Hr Hk Hn Hd ->; simpl in Hk; [lia|].
  destruct cs as [|c cs]; [destruct k; discriminate|].
  destruct k as [|k]; simpl in *.
  - inversion Hn; subst. destruct Hd as [b0|b0 b' Hp]; auto.
    destruct (decode b0) as [v0|] eqn:E; [|discriminate].
    rewrite (decode_rejects_prefix b0 b' Hp); auto. congruence.
  - destruct c as [c|]; [|discriminate]. destruct (decode c) as [v0|]; [|discriminate].
    destruct (Nat.eqb (length v0) n); [|discriminate].
    destruct (read_chunks counts cs) as [r|] eqn:E; [|discriminate].
    rewrite (IH cs _ k b d r E ltac:(lia) Hn Hd eq_refl). reflexivity.
Qed.

(* every chunk file that the index announces, and the index itself, are covered *)
Theorem damage_detected p p' vs : read_partition p = Some vs ->
  (exists d, damage_of (idx p) d /\ p' = {| idx := d; chunks := chunks p |}) \/
  (exists k b d cum, idx p = Some b /\ decode_index b = Some cum /\ (k < length (diffs cum))%nat /\
                     nth_error (chunks p) k = Some (Some (fst d)) /\ damage_of (Some (fst d)) (snd d) /\
                     p' = {| idx := idx p; chunks := firstn k (chunks p) ++ snd d :: skipn (S k) (chunks p) |}) ->
  read_partition p' = None.
Proof.
  unfold read_partition. intros Hr [[d [Hd ->]]|[k [b [[c d] [cum [Hi [Hdi [Hk [Hn [Hd ->]]]]]]]]]]; simpl in *.
  - destruct (idx p) as [ib|]; [|discriminate]. inversion Hd as [|? b' Hp]; subst; auto.
    destruct (decode_index ib) eqn:E; [|discriminate].
    rewrite (index_rejects_prefix ib b' Hp); auto. congruence.
  - rewrite Hi in *. rewrite Hdi in *.
    destruct ((1 <? length cum) && Nat.eqb (hd 1 cum) 0); [|discriminate].
    eapply read_chunks_damage; eauto.
Qed.
End Damage.
Print Assumptions no_finalise_after_error.
Print Assumptions damage_detected.
