import sys; sys.path.insert(0, '.')
from mk import *
import random, shutil, zarr, itertools, collections
from bio2zarr import vcf2zarr
hdr = ['##contig=<ID=c1,length=1000000>', '##contig=<ID=c2,length=1000000>', '##FILTER=<ID=PASS,Description="p">']
def mkfile(name, recs):
    write_vcf(name + ".vcf", hdr, [f"{c}\t{p}\t.\tA\tT\t.\tPASS\t." for c, p in recs])
    return index(name + ".vcf", kind="csi")
res = collections.Counter()
if __name__ == "__main__":
    rnd = random.Random(1)
    for trial in range(60):
        allrecs = sorted({(rnd.choice(["c1", "c2"]), rnd.randint(1, 60)) for _ in range(rnd.randint(2, 12))})
        # duplicate positions allowed: add some dups
        allrecs = sorted(allrecs + [r for r in allrecs if rnd.random() < 0.2])
        kind = rnd.choice(["contig_cut", "interleave", "nested", "touch", "disjoint"])
        if kind == "disjoint" or kind == "touch":
            k = rnd.randint(1, len(allrecs) - 1)
            A, B = allrecs[:k], allrecs[k:]
            if kind == "touch" and A[-1][0] == B[0][0]:
                B = [A[-1]] + B  # same position in both
        elif kind == "interleave":
            A, B = allrecs[::2], allrecs[1::2]
        elif kind == "nested":
            A = allrecs[:1] + allrecs[-1:]; B = allrecs[1:-1]
        else:
            A = [r for r in allrecs if r[0] == "c1"]; B = [r for r in allrecs if r[0] == "c2"]
        if not A or not B: continue
        # ground truth: overlap iff on some contig closed position ranges intersect
        def rng(X, c):
            ps = [p for cc, p in X if cc == c]; return (min(ps), max(ps)) if ps else None
        overlap = any(rng(A, c) and rng(B, c) and not (rng(A, c)[1] < rng(B, c)[0] or rng(B, c)[1] < rng(A, c)[0]) for c in ["c1", "c2"])
        fa, fb = mkfile("e20a", A), mkfile("e20b", B)
        for order in ([fa, fb], [fb, fa]):
            shutil.rmtree("e20.icf", ignore_errors=True)
            try:
                vcf2zarr.explode("e20.icf", order, worker_processes=0)
                out = "accepted"
                s = vcf2zarr.IntermediateColumnarFormat("e20.icf")
                got = list(zip([v[0] for v in s["CHROM"].values], [int(v[0]) for v in s["POS"].values]))
                exp = sorted(A + B)
                if got != exp: out = "accepted-WRONG-ORDER"
            except ValueError as e:
                out = "rejected:" + str(e)[:20]
            except Exception as e:
                out = "ERR:" + type(e).__name__
            res[(kind, overlap, out)] += 1
            if (overlap and out.startswith("accepted")) or out == "accepted-WRONG-ORDER" or out.startswith("ERR"):
                print("!!", kind, overlap, out, A, B)
    for k, v in sorted(res.items()): print(v, k)
