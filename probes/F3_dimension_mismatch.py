import sys; sys.path.insert(0, '.')
from mk import *
import shutil, zarr, xarray as xr
from bio2zarr import vcf2zarr
hdr = ['##contig=<ID=chr1,length=100000>',
       '##INFO=<ID=AD,Number=R,Type=Integer,Description="r">',
       '##INFO=<ID=AF,Number=A,Type=Float,Description="a">',
       '##FILTER=<ID=PASS,Description="All filters passed">']
recs = ["chr1\t1000\t.\tA\tT,G,C\t.\tPASS\t.", "chr1\t2000\t.\tA\tT,C\t.\tPASS\tAD=1,2,3;AF=0.5,0.25"]
write_vcf("e3.vcf", hdr, recs)
gz = index("e3.vcf")
shutil.rmtree("e3.vcz", ignore_errors=True)
vcf2zarr.convert([gz], "e3.vcz", worker_processes=0)
root = zarr.open("e3.vcz")
for k in ["variant_allele", "variant_AD", "variant_AF"]:
    print(k, root[k].shape, root[k].attrs["_ARRAY_DIMENSIONS"])
try:
    ds = xr.open_zarr("e3.vcz")
    print("xarray ok", dict(ds.sizes))
except Exception as e:
    print("XARRAY ERR", type(e).__name__, str(e)[:300])
