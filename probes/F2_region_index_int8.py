import sys; sys.path.insert(0, '.')
from mk import *
import shutil, zarr
from bio2zarr import vcf2zarr
hdr = ['##contig=<ID=chr1,length=100000>',
       '##INFO=<ID=END,Number=1,Type=Integer,Description="end">',
       '##FILTER=<ID=PASS,Description="All filters passed">']
recs = ["chr1\t100\t.\tA\t<DEL>\t.\tPASS\tEND=160", "chr1\t120\t.\tACGTACGTACGT\tA\t.\tPASS\t."]
write_vcf("e2.vcf", hdr, recs)
gz = index("e2.vcf")
shutil.rmtree("e2.vcz", ignore_errors=True)
vcf2zarr.convert([gz], "e2.vcz", worker_processes=0)
root = zarr.open("e2.vcz")
print("pos", root["variant_position"][:], root["variant_position"].dtype)
print("len", root["variant_length"][:], root["variant_length"].dtype)
print("region_index", root["region_index"][:])
