export PYTHONPATH=/root/scratch/site:/repo
PY=/venv/bin/python
rm -rf f6.icf
$PY -m bio2zarr vcf2zarr dexplode-init /repo/tests/data/vcf/sample.vcf.gz f6.icf -n 3 -Q >/dev/null
for j in 0 1 2; do $PY -m bio2zarr vcf2zarr dexplode-partition f6.icf $j; done
VERIF_AUDIT_LOG=f6.log VERIF_CRASH_MATCH='os.remove|json|1' $PY -m bio2zarr vcf2zarr dexplode-finalise f6.icf; echo "finalise exit $?"
ls f6.icf/wip
# out-of-protocol: rerun partition 1, killed at its 2nd chunk-file open
VERIF_CRASH_MATCH='open|/p1/|2' $PY -m bio2zarr vcf2zarr dexplode-partition f6.icf 1; echo "partition exit $?"
ls -la f6.icf/POS/p1 f6.icf/CHROM/p1
$PY -c "
from bio2zarr import vcf2zarr
s = vcf2zarr.IntermediateColumnarFormat('f6.icf'); print('LOADS', s.num_records)
for k in ['CHROM', 'POS']:
    try: print(k, [v.tolist() for v in s[k].values])
    except Exception as e: print(k, 'ERR', type(e).__name__, e)"
