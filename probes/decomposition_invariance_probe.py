import sys, os, random, shutil, zarr, numpy as np, json
sys.path.insert(0, '.')
import oracle, bgzf, pysam, pysam.bcftools
from bio2zarr import vcf2zarr, vcf_utils
def snapshot(path):
    r = zarr.open(path, mode="r"); out = {}
    for k in sorted(r.array_keys()):
        a = r[k]; x = a[:]
        if x.dtype.kind == "f": x = x.view(np.int32)
        out[k] = (str(a.dtype), a.shape, json.dumps(x.tolist()), json.dumps(dict(a.attrs), sort_keys=True))
    out["__attrs__"] = json.dumps({k: v for k, v in r.attrs.items()}, sort_keys=True)
    return out
def main(lo, hi):
    bad = 0; parts_hist = {}
    for seed in range(lo, hi):
        case = oracle.gen_case(seed); rnd = random.Random(seed)
        oracle.to_text(case, "m.vcf")
        bgzf.write_bgzf("m.vcf.gz", open("m.vcf").read(), lines_per_block=rnd.choice([1, 2, 5]))
        for f in ("m.vcf.gz.tbi", "m.vcf.gz.csi"):
            if os.path.exists(f): os.remove(f)
        if rnd.random() < 0.5: pysam.bcftools.index("-f", "-t", "m.vcf.gz", catch_stdout=False)
        else: pysam.bcftools.index("-f", "-c", "-m", str(rnd.choice([9, 12, 14])), "m.vcf.gz", catch_stdout=False)
        for d in ("m_ref.vcz", "m_ref.icf", "m.icf", "m.vcz"): shutil.rmtree(d, ignore_errors=True)
        vcs, scs = rnd.choice([1, 2, 5, 1000]), rnd.choice([1, 2, 1000])
        try:
            vcf2zarr.explode("m_ref.icf", ["m.vcf.gz"], worker_processes=0)
            vcf2zarr.encode("m_ref.icf", "m_ref.vcz", variants_chunk_size=vcs, samples_chunk_size=scs, worker_processes=0)
        except Exception as e:
            print(seed, "REF-ERR", type(e).__name__, str(e)[:100]); continue
        ref = snapshot("m_ref.vcz")
        try:
            s = vcf2zarr.explode_init("m.icf", ["m.vcf.gz"], target_num_partitions=rnd.choice([2, 3, 5, 20]), worker_processes=0, column_chunk_size=rnd.choice([1e-5, 1e-4, 16]))
            order = list(range(s.num_partitions)); rnd.shuffle(order)
            parts_hist[s.num_partitions] = parts_hist.get(s.num_partitions, 0) + 1
            for j in order: vcf2zarr.explode_partition("m.icf", j)
            vcf2zarr.explode_finalise("m.icf")
            s2 = vcf2zarr.encode_init("m.icf", "m.vcz", rnd.choice([1, 2, 3, 7]), variants_chunk_size=vcs, samples_chunk_size=scs)
            order = list(range(s2.num_partitions)); rnd.shuffle(order)
            for j in order: vcf2zarr.encode_partition("m.vcz", j)
            vcf2zarr.encode_finalise("m.vcz")
        except Exception as e:
            print(seed, "DIST-ERR", type(e).__name__, str(e)[:150]); bad += 1; continue
        got = snapshot("m.vcz")
        ref.pop("region_index", None)
        diff = [k for k in set(ref) | set(got) if ref.get(k) != got.get(k)]
        if diff: bad += 1; print(seed, "DIFF", diff[:5])
    print("bad", bad, "explode partition counts", parts_hist)
if __name__ == "__main__":
    main(int(sys.argv[1]), int(sys.argv[2]))
