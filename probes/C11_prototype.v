From Coq Require Import ZArith List Bool Lia ZifyBool.
Import ListNotations.
Open Scope Z_scope.
Ltac Zify.zify_post_hook ::= Z.to_euclidean_division_equations.

Fixpoint sections (start q r : Z) (k : nat) : list (Z * Z) :=
  match k with
  | O => []
  | S k' => let sz := q + (if 0 <? r then 1 else 0) in
            (start, start + sz - 1) :: sections (start + sz) q (r - 1) k'
  end.
Definition array_split_arange (n k : Z) : list (Z * Z) :=
  sections 0 (n / k) (n mod k) (Z.to_nat k).

Definition ceildiv (a b : Z) := - ((- a) / b).

Definition generate_partitions (num_records chunk_size num_partitions : Z) (max_chunks : option Z) : list (Z * Z) :=
  let num_chunks := ceildiv num_records chunk_size in
  let num_chunks := match max_chunks with None => num_chunks | Some m => Z.min num_chunks m end in
  map (fun sl => let start_chunk := fst sl in let stop_chunk := snd sl + 1 in
                 (start_chunk * chunk_size, Z.min (stop_chunk * chunk_size) num_records))
      (array_split_arange num_chunks (Z.min num_partitions num_chunks)).

(* contiguous chunk-index sections from a to b (exclusive), each nonempty *)
Fixpoint cchain (a : Z) (l : list (Z*Z)) (b : Z) : Prop :=
  match l with
  | [] => a = b
  | (s, e) :: tl => s = a /\ s <= e /\ cchain (e + 1) tl b
  end.

Lemma sections_chain : forall k start q r, 1 <= q ->
  cchain start (sections start q r k) (start + q * Z.of_nat k + Z.max 0 (Z.min r (Z.of_nat k))).
Proof.
  induction k as [|k IH]; intros start q r Hq; cbn [sections cchain].
  - lia.
  - split; [reflexivity|]. split; [destruct (0 <? r); lia|].
    replace (start + (q + (if 0 <? r then 1 else 0)) - 1 + 1) with (start + (q + (if 0 <? r then 1 else 0))) by lia.
    specialize (IH (start + (q + (if 0 <? r then 1 else 0))) q (r - 1) Hq).
    match goal with |- cchain _ _ ?b => match type of IH with cchain _ _ ?b' => replace b with b'; [exact IH|] end end.
    destruct (0 <? r) eqn:E; lia.
Qed.

Lemma sections_length : forall k start q r, length (sections start q r k) = k.
Proof. induction k; intros; cbn [sections length]; auto. Qed.

Lemma array_split_chain n k : 1 <= k <= n -> cchain 0 (array_split_arange n k) n /\ length (array_split_arange n k) = Z.to_nat k.
Proof.
  intros H. unfold array_split_arange. split; [|apply sections_length].
  pose proof (sections_chain (Z.to_nat k) 0 (n / k) (n mod k)) as S.
  match type of S with _ -> cchain _ _ ?b => replace n with b at 3; [apply S|] end.
  - nia.
  - rewrite Z2Nat.id by lia. nia.
Qed.

(* record-level chain: contiguous, nonempty, chunk aligned starts *)
Fixpoint rchain (cs a : Z) (l : list (Z*Z)) (b : Z) : Prop :=
  match l with
  | [] => a = b
  | (s, e) :: tl => s = a /\ s < e /\ s mod cs = 0 /\ rchain cs e tl b
  end.

Lemma map_chain cs n : 1 <= cs -> 1 <= n -> forall l a b,
  cchain a l b -> 0 <= a -> (b - 1) * cs < n \/ l = [] ->
  rchain cs (a * cs)
    (map (fun sl => (fst sl * cs, Z.min ((snd sl + 1) * cs) n)) l)
    (if match l with [] => true | _ => false end then a * cs else Z.min (b * cs) n).
Proof.
  intros Hcs Hn. induction l as [|[s e] tl IH]; intros a b Hc Ha Hb; cbn [map rchain cchain fst snd] in *.
  - reflexivity.
  - destruct Hc as [-> [Hse Hc]]. destruct Hb as [Hb|Hb]; [|discriminate].
    assert (Hbe: e + 1 <= b). { clear IH. revert Hc. generalize (e+1). induction tl as [|[s' e'] tl IHt]; cbn [cchain]; intros x Hx; [lia|]. destruct Hx as [-> [? Hx]]. apply IHt in Hx. lia. }
    split; [reflexivity|]. split; [nia|]. split; [rewrite Z.mod_mul; lia|].
    destruct tl as [|p tl'].
    + cbn [map rchain cchain] in *. subst b. reflexivity.
    + assert (E: Z.min ((e + 1) * cs) n = (e + 1) * cs).
      { destruct p as [s' e']. cbn [cchain] in Hc. destruct Hc as [-> [? Hc']].
        assert (e' + 1 <= b). { clear IH. revert Hc'. generalize (e'+1). induction tl' as [|[s'' e''] tl IHt]; cbn [cchain]; intros x Hx; [lia|]. destruct Hx as [-> [? Hx]]. apply IHt in Hx. lia. }
        nia. }
      rewrite E. specialize (IH (e + 1) b Hc ltac:(lia) (or_introl Hb)). exact IH.
Qed.

Theorem generate_partitions_cover nr cs np mc :
  1 <= nr -> 1 <= cs -> 1 <= np -> (match mc with None => True | Some m => 1 <= m end) ->
  let total := match mc with None => nr | Some m => Z.min nr (m * cs) end in
  let ps := generate_partitions nr cs np mc in
  rchain cs 0 ps total /\ (1 <= Z.of_nat (length ps) <= np).
Proof.
  intros Hnr Hcs Hnp Hmc total ps. subst ps total. unfold generate_partitions.
  set (nc0 := ceildiv nr cs).
  assert (Hnc0: 1 <= nc0 /\ (nc0 - 1) * cs < nr <= nc0 * cs). { unfold nc0, ceildiv. nia. }
  set (nc := match mc with None => nc0 | Some m => Z.min nc0 m end).
  assert (Hnc: 1 <= nc <= nc0). { unfold nc. destruct mc; lia. }
  set (k := Z.min np nc).
  destruct (array_split_chain nc k ltac:(lia)) as [Hc Hl].
  split.
  - pose proof (map_chain cs nr Hcs Hnr _ 0 nc Hc ltac:(lia) ltac:(left; nia)) as M.
    rewrite Z.mul_0_l in M.
    destruct (array_split_arange nc k) eqn:E.
    + cbn in Hl. lia.
    + match type of M with rchain _ _ _ ?b => match goal with |- rchain _ _ _ ?b' => replace b' with b; [exact M|] end end.
      unfold nc. destruct mc as [m|]; nia.
  - rewrite map_length, Hl. lia.
Qed.
Print Assumptions generate_partitions_cover.
