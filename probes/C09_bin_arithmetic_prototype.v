From Coq Require Import ZArith List Bool Lia ZifyBool.
Import ListNotations.
Open Scope Z_scope.
Ltac Zify.zify_post_hook ::= Z.to_euclidean_division_equations.

(* as emitted by the translator from vcf_utils.py *)
Definition get_first_bin_in_level (level : Z) := ((Z.shiftl 1 (level * 3)) - 1) / 7.
Definition get_level_size (level : Z) := Z.shiftl 1 (level * 3).
Definition bin_limit (min_shift depth : Z) := ((Z.shiftl 1 ((depth + 1) * 3)) - 1) / 7.
Definition get_file_offset (vfp : Z) := let address_mask := 281474976710655 in Z.land (Z.shiftr vfp 16) address_mask.
(* for i in range(depth, -1, -1): if bin >= first_bin(i): return i *)
Fixpoint level_search (fuel : nat) (i bin : Z) : option Z :=
  match fuel with
  | O => None
  | S f => if bin >=? get_first_bin_in_level i then Some i else level_search f (i - 1) bin
  end.
Definition get_level_for_bin (depth bin : Z) : option Z := level_search (Z.to_nat (depth + 1)) depth bin.
Definition get_first_locus_in_bin (min_shift depth bin : Z) : option Z :=
  match get_level_for_bin depth bin with
  | Some level => let first_bin_on_level := get_first_bin_in_level level in
                  let level_size := get_level_size level in
                  let max_span := Z.shiftl 1 (min_shift + 3 * depth) in
                  Some ((bin - first_bin_on_level) * (max_span / level_size) + 1)
  | None => None
  end.

(* ---- closed forms ---- *)
Lemma shiftl_1 k : 0 <= k -> Z.shiftl 1 k = 2 ^ k.
Proof. intros. rewrite Z.shiftl_mul_pow2 by lia. lia. Qed.
Lemma pow8 l : 0 <= l -> 2 ^ (l * 3) = 8 ^ l.
Proof. intros. rewrite Z.mul_comm, Z.pow_mul_r by lia. reflexivity. Qed.
Lemma pow8_mod7 l : 0 <= l -> exists q, 8 ^ l = 7 * q + 1 /\ 0 <= q.
Proof.
  intros H. pattern l. apply natlike_ind; auto.
  - exists 0. split; reflexivity || lia.
  - intros x Hx [q [Hq Hq0]]. exists (8 * q + 1). rewrite Z.pow_succ_r by lia. lia.
Qed.
Lemma first_bin_closed l : 0 <= l -> 7 * get_first_bin_in_level l + 1 = 8 ^ l.
Proof.
  intros H. unfold get_first_bin_in_level. rewrite shiftl_1, pow8 by lia.
  destruct (pow8_mod7 l H) as [q [Hq _]]. rewrite Hq. lia.
Qed.
Lemma first_bin_succ l : 0 <= l -> get_first_bin_in_level (l + 1) = get_first_bin_in_level l + 8 ^ l.
Proof.
  intros H. pose proof (first_bin_closed l H). pose proof (first_bin_closed (l + 1) ltac:(lia)).
  rewrite Z.pow_add_r in * by lia. lia.
Qed.
Lemma first_bin_mono a b : 0 <= a <= b -> get_first_bin_in_level a <= get_first_bin_in_level b.
Proof.
  intros [Ha Hab]. replace b with (a + (b - a)) by lia.
  pattern (b - a). apply natlike_ind; try lia.
  - now rewrite Z.add_0_r.
  - intros x Hx IH. replace (a + Z.succ x) with ((a + x) + 1) by lia. rewrite first_bin_succ by lia.
    assert (0 < 8 ^ (a + x)) by (apply Z.pow_pos_nonneg; lia). lia.
Qed.

(* the level found is THE level: first_bin l <= bin < first_bin (l+1) *)
Lemma level_search_spec fuel : forall i bin l, level_search fuel i bin = Some l ->
  l <= i /\ i - Z.of_nat fuel < l /\ get_first_bin_in_level l <= bin /\ (forall j, l < j <= i -> bin < get_first_bin_in_level j).
Proof.
  induction fuel as [|f IH]; intros i bin l H; [discriminate|].
  cbn [level_search] in H. destruct (bin >=? get_first_bin_in_level i) eqn:E.
  - inversion H; subst. repeat split; try lia.
  - apply IH in H. destruct H as [H1 [H2 [H3 H4]]]. repeat split; try lia.
    intros j Hj. destruct (Z.eq_dec j i) as [->|]; [lia|]. apply H4. lia.
Qed.

Theorem level_unique depth bin l : 0 <= depth -> get_level_for_bin depth bin = Some l ->
  0 <= l <= depth /\ get_first_bin_in_level l <= bin /\ (l < depth -> bin < get_first_bin_in_level (l + 1)).
Proof.
  intros Hd H. unfold get_level_for_bin in H. apply level_search_spec in H.
  rewrite Z2Nat.id in H by lia. destruct H as [H1 [H2 [H3 H4]]].
  repeat split; try lia. intros Hl. apply H4. lia.
Qed.


(* first locus: bins of level l tile [1, 2^(min_shift+3 depth)] in steps of 2^(min_shift + 3 (depth - l)) *)
Theorem first_locus_spec min_shift depth bin l : 0 <= min_shift -> 0 <= depth ->
  get_level_for_bin depth bin = Some l ->
  get_first_locus_in_bin min_shift depth bin = Some ((bin - get_first_bin_in_level l) * 2 ^ (min_shift + 3 * (depth - l)) + 1).
Proof.
  intros Hm Hd H. unfold get_first_locus_in_bin. rewrite H.
  destruct (level_unique depth bin l Hd H) as [[Hl0 Hl1] _].
  unfold get_level_size. rewrite !shiftl_1 by lia. f_equal. f_equal. f_equal.
  replace (min_shift + 3 * depth) with ((min_shift + 3 * (depth - l)) + l * 3) by lia.
  rewrite Z.pow_add_r by lia. rewrite Z.div_mul; auto.
  assert (0 < 2 ^ (l * 3)) by (apply Z.pow_pos_nonneg; lia). lia.
Qed.

Theorem file_offset_spec v : 0 <= v < 2 ^ 64 -> get_file_offset v = v / 65536.
Proof.
  intros H. unfold get_file_offset. cbv zeta.
  change 281474976710655 with (Z.ones 48). rewrite Z.land_ones by lia.
  rewrite Z.shiftr_div_pow2 by lia. change (2 ^ 16) with 65536. change (2 ^ 48) with 281474976710656.
  change (2 ^ 64) with 18446744073709551616 in H. rewrite Z.mod_small; lia.
Qed.
Print Assumptions first_locus_spec.
Print Assumptions file_offset_spec.
