From Coq Require Import ZArith Arith List Bool Lia ZifyBool.
Import ListNotations.
Open Scope Z_scope.

(* ---- abstract indexed file ---- *)
Notation rec := (nat * Z)%type.            (* (contig index, POS) ; end is irrelevant after the POS>=start filter *)
Record region := R { rc : nat; rs : option Z; re : option Z }.

Definition lo (r : region) : Z := match rs r with Some s => s | None => 1 end.
Definition in_region (r : region) (x : rec) : bool :=
  (Nat.eqb (fst x) (rc r)) && (lo r <=? snd x) && (match re r with Some e => snd x <=? e | None => true end).
(* htslib query + the `var.POS >= start` filter, in file order *)
Definition query (file : list rec) (r : region) : list rec := filter (in_region r) file.

Definition whole (c : nat) : region := R c None None.

(* the loop of partition_into_regions over the selected (contig, start) cuts *)
Fixpoint build (cuts : list (nat * Z)) : list region :=
  match cuts with
  | [] => []
  | (c, s) :: tl =>
      match tl with
      | [] => [R c (Some s) None]
      | (c', s') :: _ =>
          let e := s' - 1 in
          (if Nat.eqb c c' then [R c (Some s) (Some e)]
           else R c (Some s) None :: map whole (seq (S c) (c' - S c)) ++ (if 1 <=? e then [R c' (Some 1) (Some e)] else []))
          ++ build tl
      end
  end.

Definition last_contig (cuts : list (nat * Z)) : nat := fst (last cuts (0%nat, 0)).
Definition trailing (ncontigs : nat) (count_pos : nat -> bool) (cuts : list (nat*Z)) : list region :=
  map whole (filter count_pos (seq (S (last_contig cuts)) (ncontigs - S (last_contig cuts)))).

Definition regions ncontigs count_pos cuts := build cuts ++ trailing ncontigs count_pos cuts.

(* ---- well-formedness ---- *)
Definition of_contig (c : nat) (file : list rec) := filter (fun x => Nat.eqb (fst x) c) file.
Fixpoint sortedZ (l : list Z) : Prop := match l with [] => True | x :: tl => (forall y, In y tl -> x <= y) /\ sortedZ tl end.
Definition file_ok (file : list rec) : Prop :=
  (forall x, In x file -> 1 <= snd x) /\ forall c, sortedZ (map snd (of_contig c file)).

Fixpoint cuts_inc (cuts : list (nat * Z)) : Prop :=
  match cuts with
  | [] => True
  | (c, s) :: tl => 1 <= s /\ match tl with [] => True | (c', s') :: _ => ((c < c')%nat \/ (c = c' /\ s < s')) end /\ cuts_inc tl
  end.

(* ---- lemmas ---- *)
Lemma filter_filter {A} (f g : A -> bool) l : filter f (filter g l) = filter (fun x => g x && f x) l.
Proof. induction l as [|x tl IH]; simpl; auto. destruct (g x); simpl; [destruct (f x); simpl; now rewrite IH | exact IH]. Qed.

Lemma filter_ext_in' {A} (f g : A -> bool) l : (forall x, In x l -> f x = g x) -> filter f l = filter g l.
Proof. induction l as [|x tl IH]; simpl; intros H; auto. rewrite (H x) by auto. rewrite IH; auto. Qed.

(* split of a pos-sorted list at a threshold *)
Lemma sorted_split (l : list rec) (s t : Z) :
  sortedZ (map snd l) -> s <= t ->
  filter (fun x => (s <=? snd x) && (snd x <=? t - 1)) l ++ filter (fun x => t <=? snd x) l
  = filter (fun x => s <=? snd x) l.
Proof.
  induction l as [|x tl IH]; simpl; intros Hs Hst; auto.
  destruct Hs as [Hx Hs]. specialize (IH Hs Hst).
  destruct (s <=? snd x) eqn:E1; simpl.
  - destruct (snd x <=? t - 1) eqn:E2; simpl.
    + assert (t <=? snd x = false) as -> by lia. simpl. now rewrite IH.
    + assert (t <=? snd x = true) as E3 by lia. rewrite E3.
      (* everything after x is >= snd x >= t: first filter on tl is empty *)
      assert (F: filter (fun x0 => (s <=? snd x0) && (snd x0 <=? t - 1)) tl = []).
      { clear IH. induction tl as [|y tl' IHt]; simpl; auto.
        assert (snd x <= snd y) by (apply Hx; simpl; auto).
        assert ((s <=? snd y) && (snd y <=? t - 1) = false) as -> by lia.
        apply IHt; [intros z Hz; apply Hx; simpl; auto | destruct Hs; auto]. }
      rewrite F in *. simpl in *. f_equal. 
      rewrite <- IH. reflexivity.
  - assert (t <=? snd x = false) as -> by lia. exact IH.
Qed.

Lemma query_contig file c s (e : option Z) :
  query file (R c (Some s) e) =
  filter (fun x => (s <=? snd x) && match e with Some e => snd x <=? e | None => true end) (of_contig c file).
Proof.
  unfold query, of_contig, in_region, lo; simpl. rewrite filter_filter. apply filter_ext_in'. intros x _. now rewrite andb_assoc.
Qed.

Lemma query_whole file c : file_ok file -> query file (whole c) = of_contig c file.
Proof.
  intros [Hpos _]. unfold query, of_contig, whole, in_region, lo; simpl. apply filter_ext_in'. intros x Hx.
  specialize (Hpos x Hx). destruct (Nat.eqb (fst x) c); simpl; auto. lia.
Qed.

Definition from (file : list rec) (c : nat) (s : Z) := filter (fun x => s <=? snd x) (of_contig c file).
Definition contigs_between (file : list rec) (a n : nat) := flat_map (fun c => of_contig c file) (seq a n).

Lemma flat_map_map_whole file l : file_ok file ->
  flat_map (query file) (map whole l) = flat_map (fun c => of_contig c file) l.
Proof. intros H. induction l; simpl; auto. now rewrite query_whole, IHl. Qed.

Lemma build_cons2 c s c' s' tl : build ((c, s) :: (c', s') :: tl) =
  (if Nat.eqb c c' then [R c (Some s) (Some (s' - 1))]
   else R c (Some s) None :: map whole (seq (S c) (c' - S c)) ++ (if 1 <=? s' - 1 then [R c' (Some 1) (Some (s' - 1))] else []))
  ++ build ((c', s') :: tl).
Proof. reflexivity. Qed.

(* main induction: what `build` covers *)
Lemma build_covers file : file_ok file -> forall cuts c s,
  cuts_inc ((c, s) :: cuts) ->
  flat_map (query file) (build ((c, s) :: cuts)) =
  from file c s ++ contigs_between file (S c) (last_contig ((c, s) :: cuts) - c).
Proof.
  intros Hok. induction cuts as [|[c' s'] tl IH]; intros c s Hinc.
  - simpl. unfold last_contig; simpl. rewrite Nat.sub_diag. unfold contigs_between; simpl.
    rewrite query_contig, !app_nil_r. unfold from. apply filter_ext_in'. intros; now rewrite andb_true_r.
  - rewrite build_cons2. destruct Hinc as [Hs [Hstep Hinc]].
    rewrite flat_map_app. rewrite (IH c' s' Hinc).
    assert (Hlast: last_contig ((c, s) :: (c', s') :: tl) = last_contig ((c', s') :: tl)) by reflexivity.
    rewrite Hlast.
    assert (Hs': 1 <= s') by (destruct Hinc; auto).
    assert (Hmono: (c' <= last_contig ((c', s') :: tl))%nat).
    { clear -Hinc. revert c' s' Hinc. induction tl as [|[c2 s2] tl IHt]; intros c' s' H; unfold last_contig in *; simpl in *; [lia|].
      destruct H as [_ [Hst H]]. specialize (IHt c2 s2 H). simpl in IHt. destruct tl; simpl in *; lia. }
    destruct (Nat.eqb c c') eqn:E.
    + apply Nat.eqb_eq in E. subst c'. destruct Hstep as [Hlt|[_ Hlt]]; [lia|].
      simpl flat_map. rewrite app_nil_r. rewrite query_contig. unfold from.
      rewrite app_assoc. f_equal.
      destruct Hok as [_ Hsorted]. apply (sorted_split (of_contig c file) s s'); [apply Hsorted | lia].
    + apply Nat.eqb_neq in E. destruct Hstep as [Hlt|[Heq _]]; [|lia].
      simpl flat_map. rewrite flat_map_app. rewrite flat_map_map_whole by auto.
      rewrite query_contig.
      assert (Hfrom: filter (fun x => (s <=? snd x) && true) (of_contig c file) = from file c s).
      { unfold from. apply filter_ext_in'. intros; now rewrite andb_true_r. }
      rewrite Hfrom. rewrite <- !app_assoc. f_equal.
      (* contigs c+1 .. c'-1, then c' split at s', then later contigs *)
      replace (last_contig ((c', s') :: tl) - c)%nat with ((c' - S c) + S (last_contig ((c', s') :: tl) - c'))%nat by lia.
      unfold contigs_between at 2. rewrite seq_app, flat_map_app. f_equal.
      replace (S c + (c' - S c))%nat with c' by lia.
      simpl seq. simpl flat_map. unfold contigs_between.
      rewrite app_assoc. f_equal.
      destruct Hok as [Hpos Hsorted].
      assert (Hall: of_contig c' file = filter (fun x => 1 <=? snd x) (of_contig c' file)).
      { symmetry. clear -Hpos. unfold of_contig. rewrite filter_filter. apply filter_ext_in'. intros x Hx. specialize (Hpos x Hx).
        destruct (Nat.eqb (fst x) c'); simpl; lia. }
      destruct (1 <=? s' - 1) eqn:E1.
      * simpl flat_map. rewrite app_nil_r, query_contig. unfold from. rewrite Hall at 3.
        apply (sorted_split (of_contig c' file) 1 s'); [apply Hsorted|lia].
      * simpl. assert (s' = 1) by lia. subst s'. unfold from. rewrite Hall at 2. reflexivity.
Qed.

Theorem regions_cover ncontigs count_pos file c0 s0 cuts :
  file_ok file -> cuts_inc ((c0, s0) :: cuts) ->
  (last_contig ((c0, s0) :: cuts) < ncontigs)%nat ->
  (forall x, In x file -> (fst x < ncontigs)%nat) ->
  (* contigs before the first cut are empty; the first cut is at or before the first record of its contig *)
  (forall x, In x file -> (c0 <= fst x)%nat /\ (fst x = c0 -> s0 <= snd x)) ->
  (* trailing contigs that are skipped (count = 0) are empty *)
  (forall x, In x file -> (last_contig ((c0, s0) :: cuts) < fst x)%nat -> count_pos (fst x) = true) ->
  flat_map (query file) (regions ncontigs count_pos ((c0, s0) :: cuts))
  = flat_map (fun c => of_contig c file) (seq 0 ncontigs).
Proof.
  intros Hok Hinc Hlast Hrange Hfirst Htrail. unfold regions. rewrite flat_map_app.
  rewrite (build_covers file Hok cuts c0 s0 Hinc).
  set (cl := last_contig ((c0, s0) :: cuts)) in *.
  assert (Hc0: (c0 <= cl)%nat).
  { unfold cl. clear -Hinc. revert c0 s0 Hinc. induction cuts as [|[c2 s2] tl IHt]; intros c0 s0 H; unfold last_contig in *; simpl in *; [lia|].
    destruct H as [_ [Hst H]]. specialize (IHt c2 s2 H). simpl in IHt. destruct tl; simpl in *; lia. }
  assert (Hempty: forall c, (forall x, In x file -> fst x <> c) -> of_contig c file = []).
  { intros c H. unfold of_contig. clear -H. induction file as [|x tl IH]; simpl; auto.
    destruct (Nat.eqb (fst x) c) eqn:E; [apply Nat.eqb_eq in E; exfalso; apply (H x); simpl; auto|].
    apply IH. intros y Hy. apply H. simpl; auto. }
  replace ncontigs with (c0 + (1 + ((cl - c0) + (ncontigs - S cl))))%nat at 2 by lia.
  rewrite !seq_app, !flat_map_app. simpl seq at 2. simpl flat_map at 3. rewrite app_nil_r.
  assert (Hlead: flat_map (fun c => of_contig c file) (seq 0 c0) = []).
  { assert (G: forall l, (forall c, In c l -> (c < c0)%nat) -> flat_map (fun c => of_contig c file) l = []).
    { induction l as [|c l IH]; simpl; intros H; auto.
      rewrite Hempty; [simpl; apply IH; intros c' Hc'; apply H; simpl; auto|].
      intros x Hx. destruct (Hfirst x Hx) as [Hge _]. specialize (H c (or_introl eq_refl)). lia. }
    apply G. intros c Hc. apply in_seq in Hc. lia. }
  rewrite Hlead. simpl app.
  assert (Hc0all: from file c0 s0 = of_contig c0 file).
  { unfold from. transitivity (filter (fun _ => true) (of_contig c0 file)).
    - apply filter_ext_in'. intros x Hx. unfold of_contig in Hx. apply filter_In in Hx. destruct Hx as [Hx E].
      apply Nat.eqb_eq in E. destruct (Hfirst x Hx) as [_ H]. specialize (H E). lia.
    - clear. induction (of_contig c0 file); simpl; auto. now rewrite IHl. }
  rewrite Hc0all. replace (0 + c0)%nat with c0 by lia. rewrite <- app_assoc. f_equal.
  unfold contigs_between. replace (c0 + 1)%nat with (S c0) by lia. f_equal.
  replace (S c0 + (cl - c0))%nat with (S cl) by lia.
  unfold trailing. fold cl. rewrite flat_map_map_whole by auto.
  generalize (seq (S cl) (ncontigs - S cl)) (fun c (H : In c (seq (S cl) (ncontigs - S cl))) => proj1 (proj1 (in_seq _ _ _) H)).
  intros l Hl. induction l as [|c l IH]; simpl; auto.
  destruct (count_pos c) eqn:E; simpl.
  - f_equal. apply IH. intros c' Hc'. apply Hl. simpl; auto.
  - rewrite Hempty.
    + apply IH. intros c' Hc'. apply Hl. simpl; auto.
    + intros x Hx Heq. specialize (Hl c (or_introl eq_refl)). rewrite <- Heq in *. rewrite (Htrail x Hx) in E; [discriminate|lia].
Qed.
Print Assumptions regions_cover.
