set -e
for f in Model Gen Proofs Bridge PropsC11 Extract; do timeout 300 coqc -Q . "" $f.v; done
