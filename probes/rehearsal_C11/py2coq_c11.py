"""rehearsal: fail-closed translation of VcfZarrPartition.generate_partitions -> Gen.v"""
import ast, sys
src_path = sys.argv[1]; out = sys.argv[2]
tree = ast.parse(open(src_path).read())
class Unsupported(Exception): pass
fn = None
for n in ast.walk(tree):
    if isinstance(n, ast.ClassDef) and n.name == "VcfZarrPartition":
        for m in n.body:
            if isinstance(m, ast.FunctionDef) and m.name == "generate_partitions": fn = m
if fn is None: raise Unsupported("function not found")
OPT = set()
def expr(e):
    if isinstance(e, ast.Constant) and isinstance(e.value, int): return str(e.value)
    if isinstance(e, ast.Name): return e.id
    if isinstance(e, ast.BinOp):
        op = {ast.Add: "+", ast.Sub: "-", ast.Mult: "*", ast.FloorDiv: "/"}.get(type(e.op))
        if op: return f"({expr(e.left)} {op} {expr(e.right)})"
    if isinstance(e, ast.Call):
        f = ast.unparse(e.func)
        if f in ("min", "max") and len(e.args) == 2: return f"(Z.{f} {expr(e.args[0])} {expr(e.args[1])})"
        if f == "int" and len(e.args) == 1:
            a = e.args[0]
            if isinstance(a, ast.Call) and ast.unparse(a.func) == "np.ceil" and isinstance(a.args[0], ast.BinOp) and isinstance(a.args[0].op, ast.Div):
                return f"(ceil_truediv {expr(a.args[0].left)} {expr(a.args[0].right)})"
            if isinstance(a, ast.Subscript):
                idx = ast.unparse(a.slice)
                if idx == "0": return f"(fst {expr(a.value)})"
                if idx == "-1": return f"(snd {expr(a.value)})"
            raise Unsupported("int(): " + ast.unparse(e))
        if f == "np.array_split" and len(e.args) == 2 and ast.unparse(e.args[0]).startswith("np.arange("):
            return f"(array_split_arange {expr(e.args[0].args[0])} {expr(e.args[1])})"
        if f == "VcfZarrPartition" and len(e.args) == 2: return f"({expr(e.args[0])}, {expr(e.args[1])})"
    raise Unsupported(ast.unparse(e))
def block(stmts, acc_name=None):
    if not stmts: raise Unsupported("fallthrough")
    s, rest = stmts[0], stmts[1:]
    if isinstance(s, ast.Expr) and isinstance(s.value, ast.Constant): return block(rest, acc_name)
    if isinstance(s, ast.Assign) and isinstance(s.targets[0], ast.Name):
        if isinstance(s.value, ast.List) and not s.value.elts:       # partitions = []
            return block(rest, s.targets[0].id)
        return f"let {s.targets[0].id} := {expr(s.value)} in\n  {block(rest, acc_name)}"
    if isinstance(s, ast.If) and isinstance(s.test, ast.Compare) and isinstance(s.test.ops[0], ast.IsNot) and ast.unparse(s.test.comparators[0]) == "None" \
       and len(s.body) == 1 and isinstance(s.body[0], ast.Assign) and not s.orelse:
        v = ast.unparse(s.test.left); t = s.body[0].targets[0].id; OPT.add(v)
        return f"let {t} := match {v} with Some {v} => {expr(s.body[0].value)} | None => {t} end in\n  {block(rest, acc_name)}"
    if isinstance(s, ast.For) and isinstance(s.target, ast.Name) and acc_name and isinstance(rest[0], ast.Return) and ast.unparse(rest[0].value) == acc_name:
        *lets, last = s.body
        if not (isinstance(last, ast.Expr) and isinstance(last.value, ast.Call) and ast.unparse(last.value.func) == acc_name + ".append"): raise Unsupported("loop tail")
        body = "".join(f"let {l.targets[0].id} := {expr(l.value)} in " for l in lets) + expr(last.value.args[0])
        return f"map (fun {s.target.id} => {body}) {expr(s.iter)}"
    raise Unsupported(type(s).__name__ + ": " + ast.unparse(s)[:70])
body = block(fn.body)
args = [a.arg for a in fn.args.args]
sig = " ".join(f"({a} : option Z)" if a in OPT else f"({a} : Z)" for a in args)
open(out, "w").write("(* GENERATED from %s -- do not edit *)\nRequire Import Model.\nOpen Scope Z_scope.\nDefinition generate_partitions %s :=\n  %s.\n" % (src_path, sig, body))
print("translated", fn.name, "->", out)
