Require Import Model Gen.
Lemma gen_generate_partitions_eq nr cs np mc : Gen.generate_partitions nr cs np mc = Model.generate_partitions nr cs np mc.
Proof. reflexivity. Qed.
