From Coq Require Export ZArith List Bool.
Export ListNotations.
Open Scope Z_scope.
(* numpy primitives *)
Fixpoint sections (start q r : Z) (k : nat) : list (Z * Z) :=
  match k with O => [] | S k' => let sz := q + (if 0 <? r then 1 else 0) in (start, start + sz - 1) :: sections (start + sz) q (r - 1) k' end.
Definition array_split_arange (n k : Z) : list (Z * Z) := sections 0 (n / k) (n mod k) (Z.to_nat k).
Definition ceil_truediv (a b : Z) := - ((- a) / b).
(* hand-written model *)
Definition generate_partitions (num_records chunk_size num_partitions : Z) (max_chunks : option Z) : list (Z * Z) :=
  let num_chunks := ceil_truediv num_records chunk_size in
  let num_chunks := match max_chunks with None => num_chunks | Some m => Z.min num_chunks m end in
  map (fun sl => (fst sl * chunk_size, Z.min ((snd sl + 1) * chunk_size) num_records))
      (array_split_arange num_chunks (Z.min num_partitions num_chunks)).
(* the property, executable: non-empty, contiguous from 0, chunk aligned, ends at the records to write, at most np *)
Fixpoint chainb (cs a : Z) (l : list (Z * Z)) (b : Z) : bool :=
  match l with
  | [] => a =? b
  | (s, e) :: tl => (s =? a) && (s <? e) && (s mod cs =? 0) && chainb cs e tl b
  end.
Definition check_C11 (nr cs np : Z) (mc : option Z) (out : list (Z * Z)) : bool :=
  let total := match mc with None => nr | Some m => Z.min nr (m * cs) end in
  chainb cs 0 out total && (1 <=? Z.of_nat (length out)) && (Z.of_nat (length out) <=? np).
