"""rehearsal of `./check C11`: translator -> build -> correspondence -> verdict / failing-input search"""
import sys, os, subprocess, importlib.util, itertools, random, json, time
src = sys.argv[1]                      # path of vcz.py to verify (the real one, or a mutated copy)
t0 = time.time()
def load_impl(path):
    # import the module under test from `path` but with the real package context
    sys.path.insert(0, "/repo")
    import bio2zarr.vcf2zarr.vcz as real
    if os.path.abspath(path) == os.path.abspath(real.__file__): return real.VcfZarrPartition.generate_partitions
    code = open(path).read()
    mod = type(real)("bio2zarr.vcf2zarr.vcz_mut"); mod.__package__ = "bio2zarr.vcf2zarr"; mod.__file__ = path
    exec(compile(code, path, "exec"), mod.__dict__)
    return mod.VcfZarrPartition.generate_partitions
impl = load_impl(src)
def cases():
    for nr, cs, np_, mc in itertools.product(range(1, 25), range(1, 9), range(1, 9), [None, 1, 2, 3, 5]): yield nr, cs, np_, mc
    rnd = random.Random(int(os.environ.get("VERIF_SEED", "0")))
    for _ in range(2000): yield rnd.randint(1, 10**10), rnd.randint(1, 10**6), rnd.randint(1, 5000), rnd.choice([None, rnd.randint(1, 10**5)])
def run_model(lines):
    r = subprocess.run(["./model"], input="\n".join(lines) + "\n", capture_output=True, text=True); return r.stdout.splitlines()
# 1. translator + build (tie 1)
tie_broken = None
r = subprocess.run(["/venv/bin/python", "py2coq_c11.py", src, "Gen.v"], capture_output=True, text=True)
if r.returncode != 0: tie_broken = "translator: " + r.stderr.strip().splitlines()[-1]
else:
    b = subprocess.run(["bash", "build.sh"], capture_output=True, text=True)
    if b.returncode != 0: tie_broken = "proof obligation: " + (b.stdout + b.stderr).strip().splitlines()[0]
# 2. correspondence (tie 2) : implementation vs extracted model
cs_ = list(cases()); outs = []
for nr, cs, np_, mc in cs_:
    try: outs.append([(p.start, p.stop) for p in impl(nr, cs, np_, max_chunks=mc)])
    except Exception as e: outs.append("ERR:" + type(e).__name__)
model = run_model([f"model {nr} {cs} {np_} {-1 if mc is None else mc}" for nr, cs, np_, mc in cs_])
dis = [i for i, (o, m) in enumerate(zip(outs, model)) if isinstance(o, str) or " ".join(f"{a} {b}" for a, b in o) != m]
if dis and not tie_broken: tie_broken = f"correspondence: {len(dis)} disagreements"
# 3. verdict
if not tie_broken:
    print(f"C11 OK: theorem generate_partitions_cover compiled against the translated source; {len(cs_)} cases agree ({time.time()-t0:.1f}s)"); sys.exit(0)
# failing-input search: evaluate the extracted checker on the IMPLEMENTATION's outputs
chk = run_model([f"check {nr} {cs} {np_} {-1 if mc is None else mc} " + " ".join(f"{a} {b}" for a, b in o) if isinstance(o, list) else f"check {nr} {cs} {np_} {-1 if mc is None else mc}" for (nr, cs, np_, mc), o in zip(cs_, outs)])
fails = [i for i, c in enumerate(chk) if c == "0"]
if fails:
    i = min(fails, key=lambda i: (cs_[i][0], cs_[i][1], cs_[i][2]))     # smallest failing input
    replay = dict(property="C11", broken_tie=tie_broken, input=dict(zip(["num_records", "chunk_size", "num_partitions", "max_chunks"], cs_[i])), implementation_output=outs[i])
    json.dump(replay, open("replay_C11.json", "w"), indent=1)
    print("VIOLATION property=C11 replay=replay_C11.json"); print(json.dumps(replay)); sys.exit(1)
json.dump(dict(property="C11", broken_tie=tie_broken), open("replay_C11.json", "w"))
print("VIOLATION property=C11 replay=replay_C11.json no-failing-input-found"); sys.exit(1)
