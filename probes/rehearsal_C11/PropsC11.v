Require Import Model Gen Proofs Bridge.
Theorem generate_partitions_cover nr cs np mc :
  1 <= nr -> 1 <= cs -> 1 <= np -> (match mc with None => True | Some m => 1 <= m end) ->
  check_C11 nr cs np mc (Gen.generate_partitions nr cs np mc) = true.
Proof. intros. rewrite gen_generate_partitions_eq. now apply model_satisfies_C11. Qed.
Print Assumptions generate_partitions_cover.
