open Model
let rec pos_of_int n = if n = 1 then XH else if n land 1 = 0 then XO (pos_of_int (n lsr 1)) else XI (pos_of_int (n lsr 1))
let z_of_int n = if n = 0 then Z0 else if n > 0 then Zpos (pos_of_int n) else Zneg (pos_of_int (-n))
let rec int_of_pos = function XH -> 1 | XO p -> 2 * int_of_pos p | XI p -> 2 * int_of_pos p + 1
let int_of_z = function Z0 -> 0 | Zpos p -> int_of_pos p | Zneg p -> - (int_of_pos p)
(* line: "model nr cs np mc"  (mc = -1 for None)  ->  prints partitions
         "check nr cs np mc s0 e0 s1 e1 ..."      ->  prints 1/0  (checker applied to the IMPLEMENTATION's output) *)
let () =
  try while true do
    let toks = String.split_on_char ' ' (String.trim (input_line stdin)) in
    match toks with
    | cmd :: nr :: cs :: np :: mc :: rest ->
      let z s = z_of_int (int_of_string s) in
      let mco = if mc = "-1" then None else Some (z mc) in
      if cmd = "model" then begin
        let ps = generate_partitions (z nr) (z cs) (z np) mco in
        print_endline (String.concat " " (List.map (fun (a, b) -> Printf.sprintf "%d %d" (int_of_z a) (int_of_z b)) ps)) end
      else begin
        let rec pairs = function a :: b :: tl -> (z a, z b) :: pairs tl | _ -> [] in
        print_endline (if check_C11 (z nr) (z cs) (z np) mco (pairs rest) then "1" else "0") end
    | _ -> print_endline "?"
  done with End_of_file -> ()
