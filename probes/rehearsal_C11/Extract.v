Require Import Model.
Require Extraction. Require Import ExtrOcamlBasic.
Extraction "model.ml" Model.generate_partitions check_C11.
