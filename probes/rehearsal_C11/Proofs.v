From Coq Require Import Lia ZifyBool.
Require Import Model.
Ltac Zify.zify_post_hook ::= Z.to_euclidean_division_equations.
Fixpoint cchain (a : Z) (l : list (Z*Z)) (b : Z) : Prop :=
  match l with [] => a = b | (s, e) :: tl => s = a /\ s <= e /\ cchain (e + 1) tl b end.
Lemma sections_chain : forall k start q r, 1 <= q ->
  cchain start (sections start q r k) (start + q * Z.of_nat k + Z.max 0 (Z.min r (Z.of_nat k))).
Proof.
  induction k as [|k IH]; intros start q r Hq; cbn [sections cchain].
  - lia.
  - split; [reflexivity|]. split; [destruct (0 <? r); lia|].
    replace (start + (q + (if 0 <? r then 1 else 0)) - 1 + 1) with (start + (q + (if 0 <? r then 1 else 0))) by lia.
    specialize (IH (start + (q + (if 0 <? r then 1 else 0))) q (r - 1) Hq).
    match goal with |- cchain _ _ ?b => match type of IH with cchain _ _ ?b' => replace b with b'; [exact IH|] end end.
    destruct (0 <? r) eqn:E; lia.
Qed.
Lemma sections_length : forall k start q r, length (sections start q r k) = k.
Proof. induction k; intros; cbn [sections length]; auto. Qed.
Lemma array_split_chain n k : 1 <= k <= n -> cchain 0 (array_split_arange n k) n /\ length (array_split_arange n k) = Z.to_nat k.
Proof.
  intros H. unfold array_split_arange. split; [|apply sections_length].
  pose proof (sections_chain (Z.to_nat k) 0 (n / k) (n mod k)) as S.
  match type of S with _ -> cchain _ _ ?b => replace n with b at 3; [apply S|] end.
  - nia.
  - rewrite Z2Nat.id by lia. nia.
Qed.
Lemma cchain_le l : forall a b, cchain a l b -> a <= b.
Proof. induction l as [|[s e] tl IH]; cbn [cchain]; intros a b H; [lia|]. destruct H as [-> [? H]]. apply IH in H. lia. Qed.
Lemma map_chainb cs n : 1 <= cs -> 1 <= n -> forall l a b,
  cchain a l b -> 0 <= a -> l <> [] -> (b - 1) * cs < n ->
  chainb cs (a * cs) (map (fun sl => (fst sl * cs, Z.min ((snd sl + 1) * cs) n)) l) (Z.min (b * cs) n) = true.
Proof.
  intros Hcs Hn. induction l as [|[s e] tl IH]; intros a b Hc Ha Hne Hb; [congruence|].
  cbn [map chainb cchain fst snd] in *. destruct Hc as [-> [Hse Hc]].
  pose proof (cchain_le _ _ _ Hc) as Hle.
  destruct tl as [|p tl'].
  - cbn [map chainb cchain] in *. subst b. rewrite Z.mod_mul by lia. 
    assert (a * cs <? Z.min ((e + 1) * cs) n = true) by nia. rewrite H. rewrite !Z.eqb_refl. reflexivity.
  - assert (E: Z.min ((e + 1) * cs) n = (e + 1) * cs).
    { destruct p as [s' e']. cbn [cchain] in Hc. destruct Hc as [-> [? Hc']]. pose proof (cchain_le _ _ _ Hc'). nia. }
    rewrite E. rewrite (IH (e + 1) b Hc ltac:(lia) ltac:(discriminate) Hb).
    rewrite Z.mod_mul by lia. assert (a * cs <? (e + 1) * cs = true) by nia. rewrite H. rewrite !Z.eqb_refl. reflexivity.
Qed.
Theorem model_satisfies_C11 nr cs np mc :
  1 <= nr -> 1 <= cs -> 1 <= np -> (match mc with None => True | Some m => 1 <= m end) ->
  check_C11 nr cs np mc (Model.generate_partitions nr cs np mc) = true.
Proof.
  intros Hnr Hcs Hnp Hmc. unfold check_C11, Model.generate_partitions.
  set (nc0 := ceil_truediv nr cs).
  assert (Hnc0: 1 <= nc0 /\ (nc0 - 1) * cs < nr <= nc0 * cs). { unfold nc0, ceil_truediv. nia. }
  set (nc := match mc with None => nc0 | Some m => Z.min nc0 m end).
  assert (Hnc: 1 <= nc <= nc0). { unfold nc. destruct mc; lia. }
  set (k := Z.min np nc).
  destruct (array_split_chain nc k ltac:(lia)) as [Hc Hl].
  rewrite map_length, Hl.
  assert (Hne: array_split_arange nc k <> []). { intros E. rewrite E in Hl. simpl in Hl. lia. }
  pose proof (map_chainb cs nr Hcs Hnr _ 0 nc Hc ltac:(lia) Hne ltac:(nia)) as M.
  rewrite Z.mul_0_l in M.
  replace (match mc with None => nr | Some m => Z.min nr (m * cs) end) with (Z.min (nc * cs) nr).
  - rewrite M. lia.
  - unfold nc. destruct mc as [m|]; nia.
Qed.
