import sys, os, random, shutil, zarr, numpy as np, json
sys.path.insert(0, '.')
import oracle, bgzf, pysam, pysam.bcftools
from bio2zarr import vcf2zarr
def snapshot(path, skip=("region_index",)):
    r = zarr.open(path, mode="r"); out = {}
    for k in sorted(r.array_keys()):
        if k in skip: continue
        a = r[k]; x = a[:]
        if x.dtype.kind == "f": x = x.view(np.int32)
        out[k] = (str(a.dtype), a.shape, x.tolist(), json.dumps(dict(a.attrs), sort_keys=True))
    return out
def mkfile(case, recs, name, rnd):
    c2 = dict(case); c2["recs"] = recs
    oracle.to_text(c2, name + ".vcf")
    bgzf.write_bgzf(name + ".vcf.gz", open(name + ".vcf").read(), lines_per_block=rnd.choice([1, 3, 50]))
    for f in (name + ".vcf.gz.tbi", name + ".vcf.gz.csi"):
        if os.path.exists(f): os.remove(f)
    pysam.bcftools.index("-f", "-c" if rnd.random() < 0.5 else "-t", name + ".vcf.gz", catch_stdout=False)
    return name + ".vcf.gz"
def phased_dontcare(a, b, case):
    return True
bad = 0
for seed in range(int(sys.argv[1]), int(sys.argv[2])):
    case = oracle.gen_case(seed); rnd = random.Random(seed)
    if len(case["recs"]) < 3: continue
    full = mkfile(case, case["recs"], "sp_full", rnd)
    for d in ("sp_ref.vcz", "sp_split.vcz", "sp_cap.vcz", "sp.icf", "sp2.icf"): shutil.rmtree(d, ignore_errors=True)
    vcs = rnd.choice([1, 2, 3, 5])
    vcf2zarr.explode("sp.icf", [full], worker_processes=0)
    vcf2zarr.encode("sp.icf", "sp_ref.vcz", variants_chunk_size=vcs, worker_processes=0)
    ref = snapshot("sp_ref.vcz")
    # (a) max_variant_chunks prefix
    n = len(case["recs"]); nchunks = -(-n // vcs); cap = rnd.randint(1, nchunks)
    vcf2zarr.encode("sp.icf", "sp_cap.vcz", variants_chunk_size=vcs, max_variant_chunks=cap, worker_processes=0)
    capd = snapshot("sp_cap.vcz"); keep = min(n, cap * vcs)
    for k, (dt, shape, vals, attrs) in ref.items():
        if "variants" not in json.loads(attrs).get("_ARRAY_DIMENSIONS", []): exp = (dt, shape, vals, attrs)
        else: exp = (dt, (keep,) + tuple(shape[1:]), vals[:keep], attrs)
        if k == "call_genotype_phased": continue
        if capd.get(k) != exp: bad += 1; print(seed, "CAP-DIFF", k, cap, vcs, n); break
    # (b) split into 2-3 files at record boundaries where position ranges do not touch
    recs = case["recs"]
    cuts = [i for i in range(1, n) if (recs[i - 1]["contig"], recs[i - 1]["pos"]) < (recs[i]["contig"], recs[i]["pos"]) and not (recs[i - 1]["contig"] == recs[i]["contig"] and recs[i - 1]["pos"] == recs[i]["pos"])]
    if not cuts: continue
    ks = sorted(rnd.sample(cuts, min(len(cuts), rnd.choice([1, 2]))))
    pieces = [recs[a:b] for a, b in zip([0] + ks, ks + [n])]
    files = [mkfile(case, p, "sp_part%d" % i, rnd) for i, p in enumerate(pieces)]
    rnd.shuffle(files)
    try:
        vcf2zarr.explode("sp2.icf", files, worker_processes=0)
        vcf2zarr.encode("sp2.icf", "sp_split.vcz", variants_chunk_size=vcs, worker_processes=0)
    except Exception as e:
        bad += 1; print(seed, "SPLIT-ERR", type(e).__name__, str(e)[:120]); continue
    got = snapshot("sp_split.vcz")
    diff = [k for k in ref if k != "call_genotype_phased" and got.get(k) != ref[k]]
    if diff: bad += 1; print(seed, "SPLIT-DIFF", diff[:4])
print("bad", bad)
