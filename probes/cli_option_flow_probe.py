"""probe: extract the CLI option-flow table from cli.py (prototype of cli2coq.py)"""
import ast, json
src = open("/repo/bio2zarr/cli.py").read(); tree = ast.parse(src)
opts = {}   # module-level option objects:  name -> (param names, kwargs)
for n in tree.body:
    if isinstance(n, ast.Assign) and isinstance(n.value, ast.Call) and ast.unparse(n.value.func) in ("click.option", "click.argument"):
        decls = [a.value for a in n.value.args if isinstance(a, ast.Constant)]
        kw = {k.arg: ast.unparse(k.value) for k in n.value.keywords}
        opts[n.targets[0].id] = (ast.unparse(n.value.func).split(".")[1], decls, kw)
table = {}
for n in tree.body:
    if isinstance(n, ast.FunctionDef) and any(ast.unparse(d).startswith("click.command") for d in n.decorator_list):
        used = [ast.unparse(d) for d in n.decorator_list if isinstance(d, ast.Name) and d.id in opts]
        pre = []; call = None
        for st in n.body:
            if isinstance(st, ast.If) and ast.unparse(st.test) == "one_based":
                pre.append(("if one_based", ast.unparse(st.body[0])))
            for c in ast.walk(st):
                if isinstance(c, ast.Call) and ast.unparse(c.func).split(".")[0] in ("vcf2zarr", "plink") :
                    call = c
            if isinstance(st, ast.Expr) and isinstance(st.value, ast.Call) and ast.unparse(st.value.func) in ("check_overwrite_dir", "check_partitions", "setup_logging"):
                pre.append(("guard", ast.unparse(st.value)))
        if call is None: continue
        table[n.name] = dict(options=used, pre=pre, lib=ast.unparse(call.func),
                             args=[ast.unparse(a) for a in call.args], kwargs={k.arg: ast.unparse(k.value) for k in call.keywords})
for k, v in table.items():
    ident = all(a == b or b in (f"get_compressor({a})",) for a, b in v["kwargs"].items() if a not in ("show_progress", "schema_path", "target_num_partitions"))
    print(k, "->", v["lib"], v["args"], {a: b for a, b in v["kwargs"].items() if a != b}, "| pre:", v["pre"])
