import os, sys, json, shutil, subprocess, zarr, numpy as np
PY = "/venv/bin/python"; ENV = dict(os.environ, PYTHONPATH="/repo")
VCF = "/repo/tests/data/vcf/1kg_2020_chrM.vcf.gz"
def cli(*a, inp=None):
    r = subprocess.run([PY, "-m", "bio2zarr", *a], env=ENV, capture_output=True, text=True, input=inp)
    return r.returncode, r.stdout, r.stderr
def lib(code):
    r = subprocess.run([PY, "-c", "from bio2zarr import vcf2zarr, vcf_utils, plink\nif __name__ == '__main__':\n" + "\n".join("    " + l for l in code.splitlines())], env=ENV, capture_output=True, text=True)
    assert r.returncode == 0, r.stderr[-500:]; return r.stdout
def snap_vcz(p):
    r = zarr.open(p, mode="r"); out = {}
    for k in sorted(r.array_keys()):
        a = r[k]; x = a[:]
        if x.dtype.kind == "f": x = x.view(np.int32)
        out[k] = (str(a.dtype), a.shape, a.chunks, str(a.compressor), x.tolist())
    return out
def snap_icf(p):
    return lib(f"s = vcf2zarr.IntermediateColumnarFormat('{p}')\nimport json\nprint(json.dumps({{k: [None if v is None else v.tolist() for v in f.values] for k, f in s.items()}}, sort_keys=True))")
def clean(*ps):
    for p in ps: shutil.rmtree(p, ignore_errors=True)
issues = []
def check(name, cond, info=""):
    print(("ok  " if cond else "FAIL"), name, info if not cond else "")
    if not cond: issues.append(name)
clean("c1.icf", "l1.icf", "c1.vcz", "l1.vcz", "c2.icf", "c2.vcz", "l2.vcz", "c3.vcz", "l3.vcz")
# explode / encode / convert
rc, out, err = cli("vcf2zarr", "explode", VCF, "c1.icf", "-Q", "-p", "2", "-c", "1", "-C", "lz4")
lib(f"from bio2zarr import cli as c\nvcf2zarr.explode('l1.icf', ['{VCF}'], worker_processes=2, column_chunk_size=1, compressor=c.get_compressor('lz4'))")
check("explode cli==lib values", rc == 0 and snap_icf("c1.icf") == snap_icf("l1.icf"))
check("explode compressor option reaches ICF", json.load(open("c1.icf/metadata.json"))["compressor"]["cname"] == "lz4" and json.load(open("c1.icf/metadata.json"))["column_chunk_size"] == 1)
rc, out, err = cli("vcf2zarr", "encode", "c1.icf", "c1.vcz", "-Q", "-l", "7", "-w", "3", "-V", "2", "-p", "2", "-M", "1G")
lib("vcf2zarr.encode('l1.icf', 'l1.vcz', variants_chunk_size=7, samples_chunk_size=3, max_variant_chunks=2, worker_processes=2, max_memory='1G')")
check("encode cli==lib (-l -w -V -M)", rc == 0 and snap_vcz("c1.vcz") == snap_vcz("l1.vcz"))
rc, out, err = cli("vcf2zarr", "encode", "c1.icf", "c3.vcz", "-Q", "-M", "10")
check("encode -M too small is an error, nothing finished", rc != 0 and not os.path.exists("c3.vcz/.zmetadata"), err[-200:])
clean("c3.vcz")
rc, out, err = cli("vcf2zarr", "convert", VCF, "c3.vcz", "-Q", "-l", "11", "-w", "2", "-p", "1")
lib(f"vcf2zarr.convert(['{VCF}'], 'l3.vcz', variants_chunk_size=11, samples_chunk_size=2, worker_processes=1)")
check("convert cli==lib", rc == 0 and snap_vcz("c3.vcz") == snap_vcz("l3.vcz"))
# mkschema / schema
rc, out, err = cli("vcf2zarr", "mkschema", "c1.icf", "-l", "5", "-w", "2")
lout = lib("import sys\nvcf2zarr.mkschema('l1.icf', sys.stdout, variants_chunk_size=5, samples_chunk_size=2)")
check("mkschema cli==lib", rc == 0 and json.loads(out) == json.loads(lout))
open("sch.json", "w").write(out)
clean("c2.vcz", "l2.vcz")
rc, o2, err = cli("vcf2zarr", "encode", "c1.icf", "c2.vcz", "-Q", "-s", "sch.json")
lib("vcf2zarr.encode('l1.icf', 'l2.vcz', schema_path='sch.json')")
check("encode -s cli==lib", rc == 0 and snap_vcz("c2.vcz") == snap_vcz("l2.vcz"), err[-200:])
rc, o2, err = cli("vcf2zarr", "encode", "c1.icf", "c2.vcz", "-Q", "-s", "sch.json", "-l", "3", "-f")
check("schema + chunk size rejected", rc != 0)
# overwrite guard
before = snap_vcz("c1.vcz")
rc, o2, err = cli("vcf2zarr", "encode", "c1.icf", "c1.vcz", "-Q", inp="n\n")
check("overwrite declined leaves store intact", rc != 0 and snap_vcz("c1.vcz") == before)
rc, o2, err = cli("vcf2zarr", "encode", "c1.icf", "c1.vcz", "-Q", "-l", "5", inp="y\n")
check("overwrite confirmed replaces", rc == 0 and snap_vcz("c1.vcz")["variant_position"][2] == (5,))
rc, o2, err = cli("vcf2zarr", "encode", "c1.icf", "c1.vcz", "-Q", "-l", "6", "-f")
check("--force replaces", rc == 0 and snap_vcz("c1.vcz")["variant_position"][2] == (6,))
# distributed explode: printed count is the needed count; zero/one based
clean("d.icf")
rc, out, err = cli("vcf2zarr", "dexplode-init", VCF, "d.icf", "-n", "4", "-Q", "--json")
n = json.loads(out)["num_partitions"]; check("dexplode-init json", rc == 0 and n >= 1, out)
clean("d2.icf"); rc, out2, err = cli("vcf2zarr", "dexplode-init", VCF, "d2.icf", "-n", "4", "-Q")
check("dexplode-init table agrees with json", dict(l.split() for l in out2.strip().splitlines())["num_partitions"] == str(n), out2)
for j in range(n - 1): cli("vcf2zarr", "dexplode-partition", "d.icf", str(j))
rc, _, _ = cli("vcf2zarr", "dexplode-finalise", "d.icf"); check("finalise refuses with n-1 partitions", rc != 0 and not os.path.exists("d.icf/metadata.json"))
rc, _, _ = cli("vcf2zarr", "dexplode-partition", "d.icf", str(n)); check("partition n (zero-based) rejected", rc != 0)
rc, _, _ = cli("vcf2zarr", "dexplode-partition", "d.icf", str(n), "--one-based"); check("partition n one-based accepted", rc == 0)
rc, _, _ = cli("vcf2zarr", "dexplode-finalise", "d.icf"); check("finalise succeeds with n partitions", rc == 0)
check("dexplode result == explode", snap_icf("d.icf") == snap_icf("l1.icf"))
rc, _, _ = cli("vcf2zarr", "dexplode-partition", "d2.icf", "0", "--one-based"); check("partition 0 one-based rejected", rc != 0)
# distributed encode
clean("d.vcz")
rc, out, err = cli("vcf2zarr", "dencode-init", "d.icf", "d.vcz", "-n", "5", "-l", "7", "-w", "3", "-V", "2", "--json", "-Q")
m = json.loads(out)["num_partitions"]; check("dencode-init json", rc == 0 and m >= 1, out)
for j in range(1, m): cli("vcf2zarr", "dencode-partition", "d.vcz", str(j))
rc, _, _ = cli("vcf2zarr", "dencode-finalise", "d.vcz", "-Q"); check("dencode-finalise refuses with m-1", rc != 0 and not os.path.exists("d.vcz/.zmetadata"))
rc, _, _ = cli("vcf2zarr", "dencode-partition", "d.vcz", "1", "--one-based"); check("dencode partition 1 one-based == 0", rc == 0)
rc, _, _ = cli("vcf2zarr", "dencode-finalise", "d.vcz", "-Q"); check("dencode-finalise ok", rc == 0)
a, b = snap_vcz("d.vcz"), snap_vcz("l1.vcz"); b.pop("region_index", None)
check("dencode result == encode (minus region_index)", a == b)
# inspect
rc, out, err = cli("vcf2zarr", "inspect", "d.icf"); check("inspect icf", rc == 0 and "FORMAT/GT" in out)
rc, out, err = cli("vcf2zarr", "inspect", "d.vcz"); check("inspect vcz", rc == 0 and "call_genotype" in out)
# vcfpartition
rc, out, err = cli("vcfpartition", VCF, "-n", "5")
lout = lib(f"iv = vcf_utils.IndexedVcf('{VCF}')\nfor r in iv.partition_into_regions(num_parts=5): print(f'{{r}}\\t{VCF}')")
check("vcfpartition -n == lib", rc == 0 and out == lout, out)
rc, out, err = cli("vcfpartition", VCF, "-s", "20KB")
lout = lib(f"iv = vcf_utils.IndexedVcf('{VCF}')\nfor r in iv.partition_into_regions(target_part_size='20KB'): print(f'{{r}}\\t{VCF}')")
check("vcfpartition -s == lib", rc == 0 and out == lout, out)
rc, out, err = cli("vcfpartition", VCF); check("vcfpartition without -n/-s is a usage error", rc != 0)
# plink
clean("p1.vcz", "p2.vcz")
rc, out, err = cli("plink2zarr", "convert", "/repo/tests/data/plink/plink_sim_10s_100v_10pmiss.bed", "p1.vcz", "-Q", "-l", "10", "-w", "3", "-p", "2")
lib("plink.convert('/repo/tests/data/plink/plink_sim_10s_100v_10pmiss.bed', 'p2.vcz', variants_chunk_size=10, samples_chunk_size=3, worker_processes=2)")
check("plink convert cli==lib", rc == 0 and snap_vcz("p1.vcz") == snap_vcz("p2.vcz"), err[-300:])
print("ISSUES", issues)
