From Coq Require Import ZArith Arith List Bool Lia ZifyBool.
Import ListNotations.

(* create_index for ONE variant chunk: rows (contig, start, end, max_end, count) for maximal runs of equal contig *)
Notation rec := (nat * Z * Z)%type.            (* contig id, position, length *)
Definition ctg (r : rec) := fst (fst r).
Definition pos (r : rec) := snd (fst r).
Definition len (r : rec) := snd r.

Definition wrap32 (x : Z) : Z := ((x + 2147483648) mod 4294967296 - 2147483648)%Z.
Definition end_of (r : rec) : Z := wrap32 (pos r + len r - 1).     (* int32 arithmetic, as in the (fixed) code *)

(* np.diff(c, append=-1) != 0 at i  <=>  i is the last index of its run *)
Fixpoint runs (l : list rec) : list (list rec) :=
  match l with
  | [] => []
  | r :: tl => match runs tl with
               | (r' :: g) :: gs => if Nat.eqb (ctg r) (ctg r') then (r :: r' :: g) :: gs else [r] :: (r' :: g) :: gs
               | [] :: gs => [r] :: gs          (* unreachable: groups are never empty *)
               | [] => [[r]]
               end
  end.
Definition maxZ (l : list Z) (d : Z) : Z := fold_left Z.max l d.
Definition row_of (g : list rec) : option (nat * Z * Z * Z * nat) :=
  match g with
  | [] => None
  | r :: _ => Some (ctg r, pos r, pos (last g r), maxZ (map end_of g) (end_of r), length g)
  end.
Definition index_rows (chunk : list rec) := map row_of (runs chunk).

(* ---- properties ---- *)
Lemma runs_concat l : concat (runs l) = l.
Proof.
  induction l as [|r tl IH]; [reflexivity|]. cbn [runs].
  destruct (runs tl) as [|[|r' g] gs] eqn:E; cbn [concat app] in *.
  - rewrite <- IH. reflexivity.
  - rewrite <- IH. reflexivity.
  - destruct (Nat.eqb (ctg r) (ctg r')); cbn [concat app]; rewrite <- IH; reflexivity.
Qed.
Lemma runs_nonempty l : Forall (fun g => g <> []) (runs l).
Proof.
  induction l as [|r tl IH]; cbn [runs]; auto.
  destruct (runs tl) as [|[|r' g] gs] eqn:E.
  - repeat constructor. discriminate.
  - inversion IH; subst. congruence.
  - inversion IH; subst. destruct (Nat.eqb (ctg r) (ctg r')); repeat constructor; auto; discriminate.
Qed.
Lemma runs_uniform l : Forall (fun g => forall x y, In x g -> In y g -> ctg x = ctg y) (runs l).
Proof.
  induction l as [|r tl IH]; cbn [runs]; auto.
  pose proof (runs_nonempty tl) as NE.
  destruct (runs tl) as [|[|r' g] gs] eqn:E.
  - constructor; auto. intros x y [<-|[]] [<-|[]]; auto.
  - inversion NE; subst. congruence.
  - inversion IH as [|? ? Hg Hgs]; subst. destruct (Nat.eqb_spec (ctg r) (ctg r')) as [Eq|Ne].
    + constructor; auto. intros x y Hx Hy.
      assert (G: forall z, In z (r :: r' :: g) -> ctg z = ctg r').
      { intros z [<-|Hz]; auto. apply Hg; simpl; auto. }
      rewrite (G x Hx), (G y Hy). reflexivity.
    + constructor; [intros x y [<-|[]] [<-|[]]; auto|]. constructor; auto.
Qed.
(* maximal: adjacent runs have different contigs *)
Fixpoint adjacent_differ (gs : list (list rec)) : Prop :=
  match gs with
  | g1 :: ((g2 :: _) as tl) => (forall x y, In x g1 -> In y g2 -> ctg x <> ctg y) /\ adjacent_differ tl
  | _ => True
  end.
Lemma runs_maximal l : adjacent_differ (runs l).
Proof.
  induction l as [|r tl IH]; cbn [runs]; [exact I|].
  pose proof (runs_uniform tl) as U. pose proof (runs_nonempty tl) as NE.
  destruct (runs tl) as [|[|r' g] gs] eqn:E.
  - exact I.
  - inversion NE; subst. congruence.
  - destruct (Nat.eqb_spec (ctg r) (ctg r')) as [Eq|Ne].
    + destruct gs as [|g2 gs']; [exact I|]. cbn [adjacent_differ] in *. destruct IH as [H1 H2]. split; auto.
      intros x y [<-|Hx] Hy; [rewrite Eq|]; apply H1; simpl; auto.
    + cbn [adjacent_differ]. split; auto. intros x y [<-|[]] Hy. inversion U as [|? ? Hg _]; subst.
      rewrite (Hg y r' Hy (or_introl eq_refl)). auto.
Qed.

(* the counts of the rows add up to the chunk length: every record is in exactly one row *)
Theorem rows_cover_once chunk : fold_right (fun g acc => length g + acc) 0 (runs chunk) = length chunk.
Proof. rewrite <- (runs_concat chunk) at 2. induction (runs chunk); simpl; auto. rewrite app_length. lia. Qed.

(* max_end is the true maximum of pos+len-1 over the run when no record reaches 2^31 *)
Lemma maxZ_spec l : forall d, (forall x, In x l -> (x <= maxZ l d)%Z) /\ (d <= maxZ l d)%Z /\ (In (maxZ l d) l \/ maxZ l d = d).
Proof.
  unfold maxZ. induction l as [|x tl IH]; intros d; cbn [fold_left].
  - split; [intros x []|split; [lia|auto]].
  - destruct (IH (Z.max d x)) as [H1 [H2 H3]]. split; [|split].
    + intros y [<-|Hy]; [lia|auto].
    + lia.
    + destruct H3 as [H3|H3]; [left; right; exact H3|].
      rewrite H3. destruct (Z.max_spec d x) as [[_ E]|[_ E]]; rewrite E; [left; left; reflexivity|right; reflexivity].
Qed.
Theorem end_exact (r : rec) : (0 <= pos r + len r - 1 < 2147483648)%Z -> end_of r = (pos r + len r - 1)%Z.
Proof. intros H. unfold end_of, wrap32. rewrite Z.mod_small; lia. Qed.
Print Assumptions rows_cover_once.
