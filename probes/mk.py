import pysam, pysam.bcftools, os, shutil, pathlib
def write_vcf(path, header_lines, records, samples=()):
    """records: list of tab-joined strings"""
    with open(path, "w") as f:
        f.write("##fileformat=VCFv4.3\n")
        for h in header_lines:
            f.write(h + "\n")
        cols = ["#CHROM","POS","ID","REF","ALT","QUAL","FILTER","INFO"]
        if samples:
            cols += ["FORMAT"] + list(samples)
        f.write("\t".join(cols) + "\n")
        for r in records:
            f.write(r + "\n")
def index(path, kind="tbi", min_shift=14, bcf=False):
    path = str(path)
    gz = path + ".gz"
    pysam.tabix_compress(path, gz, force=True)
    out = gz
    if bcf:
        out = path[:-4] + ".bcf"
        pysam.bcftools.view("-O", "b", "-o", out, gz, catch_stdout=False)
        pysam.bcftools.index("-f", "-m", str(min_shift), out, catch_stdout=False)
        return out
    if kind == "tbi":
        pysam.bcftools.index("-f", "-t", gz, catch_stdout=False)
    else:
        pysam.bcftools.index("-f", "-c", "-m", str(min_shift), gz, catch_stdout=False)
    return gz
