import os, sys, subprocess, shutil, time, collections
PY = "/venv/bin/python"
DRV = r'''
import sys, os
from bio2zarr import vcf2zarr, plink
if __name__ == "__main__":
    what, w = sys.argv[1], int(sys.argv[2])
    if what == "explode": vcf2zarr.explode("f.icf", ["/repo/tests/data/vcf/1kg_2020_chrM.vcf.gz"], worker_processes=w)
    elif what == "encode": vcf2zarr.encode("g.icf", "f.vcz", worker_processes=w, variants_chunk_size=3)
    elif what == "plink": plink.convert("/repo/tests/data/plink/plink_sim_10s_100v_10pmiss.bed", "f.pz", worker_processes=w, variants_chunk_size=10)
    print("DRIVER-SUCCESS")
'''
open("drv.py", "w").write(DRV)
env0 = dict(os.environ, PYTHONPATH="/root/scratch/site2:/repo")
shutil.rmtree("g.icf", ignore_errors=True)
subprocess.run([PY, "-c", "from bio2zarr import vcf2zarr\nvcf2zarr.explode('g.icf', ['/repo/tests/data/vcf/sample.vcf.gz'], worker_processes=0)"], env=dict(os.environ, PYTHONPATH="/repo"))
res = collections.Counter()
for what, marker, idxs in [("explode", "f.icf/metadata.json", [0, 1, 2]), ("encode", "f.vcz/.zmetadata", [0, 1, 2]), ("plink", "f.pz/.zmetadata", [0, 10, 90])]:
    for w in (0, 1, 2, 4):
        for idx in idxs:
            for kind in ("raise", "exit"):
                if w == 0 and kind == "exit": continue
                for d in ("f.icf", "f.vcz", "f.pz"): shutil.rmtree(d, ignore_errors=True)
                t = time.time()
                try:
                    r = subprocess.run([PY, "drv.py", what, str(w)], env=dict(env0, VERIF_FAULT=f"{what}:{idx}:{kind}"), capture_output=True, text=True, timeout=120)
                    ok = "DRIVER-SUCCESS" in r.stdout; rc = r.returncode
                except subprocess.TimeoutExpired:
                    ok, rc = False, "HANG"
                fin = os.path.exists(marker)
                key = (what, "success!" if ok else f"error", "finished-marker" if fin else "no-marker")
                res[key] += 1
                if ok or fin or rc == "HANG": print("!!", what, w, idx, kind, rc, ok, fin, f"{time.time()-t:.1f}s")
for k, v in sorted(res.items()): print(v, k)
