import json, shutil, subprocess, sys, zarr, numpy as np, itertools
env = dict(PYTHONPATH="/repo", PATH="/usr/bin:/bin")
PY = "/venv/bin/python"
def run(*a, **k): return subprocess.run([PY, "-m", "bio2zarr", *a], env=env, capture_output=True, text=True, **k)
shutil.rmtree("s.icf", ignore_errors=True)
print(run("vcf2zarr", "explode", "/repo/tests/data/vcf/sample.vcf.gz", "s.icf", "-Q", "-p", "0").returncode)
sch = json.loads(run("vcf2zarr", "mkschema", "s.icf", "-l", "4", "-w", "2").stdout)
ref = None
shutil.rmtree("sref.vcz", ignore_errors=True); run("vcf2zarr", "encode", "s.icf", "sref.vcz", "-Q", "-l", "4", "-w", "2", "-p", "0")
ref = zarr.open("sref.vcz")
names = [f["name"] for f in sch["fields"]]
optional = [n for n in names if n.startswith("call_") and not n.startswith("call_genotype") or n.startswith("variant_") and n[8:] in ("NS","AN","AC","DP","AF","AA","DB","H2")]
bad = 0
for drop in [set(c) for r in (1, 2) for c in itertools.combinations(optional, r)][:40]:
    s2 = dict(sch); s2["fields"] = []
    for f in sch["fields"]:
        if f["name"] in drop: continue
        f = dict(f)
        if f["dtype"] == "i1": f["dtype"] = "i4"   # widen
        if f["name"] == "variant_position": f["compressor"] = dict(f["compressor"], cname="lz4", clevel=1)
        s2["fields"].append(f)
    json.dump(s2, open("s2.json", "w"))
    shutil.rmtree("s2.vcz", ignore_errors=True)
    r = run("vcf2zarr", "encode", "s.icf", "s2.vcz", "-Q", "-s", "s2.json", "-p", "0")
    if r.returncode != 0: print("ERR", drop, r.stderr[-300:]); bad += 1; continue
    out = zarr.open("s2.vcz")
    got = set(out.array_keys()); exp = set(ref.array_keys()) - drop
    if got != exp: print("ARRAYS", drop, got ^ exp); bad += 1
    for k in exp:
        if k == "region_index": continue
        a, b = out[k], ref[k]
        x, y = a[:], b[:]
        if x.dtype.kind == "f": x, y = x.view(np.int32), y.view(np.int32)
        if x.shape != y.shape or not (x == y).all(): print("VALUES", drop, k); bad += 1
        if b.dtype == np.int8 and a.dtype != np.int32: print("DTYPE", k, a.dtype); bad += 1
        if a.chunks != b.chunks: print("CHUNKS", k); bad += 1
    if out["variant_position"].compressor.cname != "lz4": print("COMPRESSOR"); bad += 1
print("bad", bad)
