From Coq Require Import ZArith List Bool Lia ZifyBool.
Import ListNotations.
Open Scope Z_scope.
Ltac Zify.zify_post_hook ::= Z.to_euclidean_division_equations.

(* PLINK .bed, variant-major: 3 magic bytes, then ceil(n/4) bytes per variant, sample s in bits 2(s mod 4).. of byte s/4 *)
Definition code_of_byte (byte : Z) (k : Z) : Z := (byte / 4 ^ k) mod 4.       (* k = s mod 4 *)
Definition bytes_per_variant (n : Z) : Z := (n + 3) / 4.
Definition bed_code (body : list Z) (n v s : Z) : Z :=
  code_of_byte (nth (Z.to_nat (v * bytes_per_variant n + s / 4)) body 0) (s mod 4).

(* independent writer: pack codes of one variant row *)
Fixpoint pack4 (cs : list Z) : Z := match cs with [] => 0 | c :: tl => c + 4 * pack4 tl end.
Fixpoint pack_row (cs : list Z) (fuel : nat) : list Z :=
  match fuel with O => [] | S f => match cs with [] => [] | _ => pack4 (firstn 4 cs) :: pack_row (skipn 4 cs) f end end.

(* the call mapping of encode_genotypes_slice composed with bed_reader(count_A1=False) *)
Definition a2_count (code : Z) : Z := match code with 0 => 0 | 2 => 1 | 3 => 2 | _ => -127 end.
Definition call_of_count (v : Z) : Z * Z :=
  if v =? -127 then (-1, -1) else if v =? 2 then (1, 1) else if v =? 1 then (1, 0) else (0, 0).
Definition call (code : Z) := call_of_count (a2_count code).

Lemma call_spec code : 0 <= code < 4 ->
  call code = match code with 0 => (0,0) | 1 => (-1,-1) | 2 => (1,0) | _ => (1,1) end.
Proof. intros H. assert (code = 0 \/ code = 1 \/ code = 2 \/ code = 3) as Hc by lia. destruct Hc as [E|[E|[E|E]]]; subst; reflexivity. Qed.

(* bit extraction inverts packing, for any 4 codes *)
Lemma code_of_pack4 c0 c1 c2 c3 k : 0 <= c0 < 4 -> 0 <= c1 < 4 -> 0 <= c2 < 4 -> 0 <= c3 < 4 -> 0 <= k < 4 ->
  code_of_byte (pack4 [c0; c1; c2; c3]) k = nth (Z.to_nat k) [c0; c1; c2; c3] 0.
Proof.
  intros H0 H1 H2 H3 Hk. unfold code_of_byte, pack4.
  assert (k = 0 \/ k = 1 \/ k = 2 \/ k = 3) as Hc by lia. destruct Hc as [E|[E|[E|E]]]; subst; cbn -[Z.mul Z.add Z.div Z.modulo Z.pow]; change (Pos.to_nat 1) with 1%nat; change (Pos.to_nat 2) with 2%nat; change (Pos.to_nat 3) with 3%nat; cbn [nth]; rewrite ?Z.mul_0_r, ?Z.add_0_r; change (4 ^ 0) with 1; change (4 ^ 1) with 4; change (4 ^ 2) with 16; change (4 ^ 3) with 64; lia.
Qed.

(* padding bits are never read: only k < n mod 4 of the last byte matter; short rows (n mod 4 <> 0) *)
Lemma code_of_pack4_short cs k : Forall (fun c => 0 <= c < 4) cs -> (length cs <= 4)%nat -> 0 <= k < Z.of_nat (length cs) ->
  code_of_byte (pack4 cs) k = nth (Z.to_nat k) cs 0.
Proof.
  intros Hc Hl Hk.
  destruct cs as [|c0 [|c1 [|c2 [|c3 [|? ?]]]]]; simpl length in *; try lia;
  repeat match goal with H : Forall _ (_ :: _) |- _ => inversion H; clear H; subst end;
  unfold code_of_byte, pack4;
  (assert (k = 0 \/ k = 1 \/ k = 2 \/ k = 3) as Hc by lia); destruct Hc as [E|[E|[E|E]]]; subst; try lia;
  cbn -[Z.mul Z.add Z.div Z.modulo Z.pow]; change (Pos.to_nat 1) with 1%nat; change (Pos.to_nat 2) with 2%nat; change (Pos.to_nat 3) with 3%nat; cbn [nth]; rewrite ?Z.mul_0_r, ?Z.add_0_r; change (4 ^ 0) with 1; change (4 ^ 1) with 4; change (4 ^ 2) with 16; change (4 ^ 3) with 64; lia.
Qed.
Print Assumptions code_of_pack4_short.
