From Coq Require Import ZArith Arith List Bool Lia ZifyBool Sorting.Sorted Permutation.
Import ListNotations.
Open Scope Z_scope.
Ltac Zify.zify_post_hook ::= Z.to_euclidean_division_equations.

(* ---- the CSI side of `offsets()` for ONE contig (post-fix): (loffset, first locus) pairs sorted lexicographically ---- *)
Notation key := (Z * Z)%type.                       (* (loffset, position) *)
Definition key_leb (a b : key) : bool := (fst a <? fst b) || ((fst a =? fst b) && (snd a <=? snd b)).
Fixpoint insert (x : key) (l : list key) : list key :=
  match l with [] => [x] | y :: tl => if key_leb x y then x :: y :: tl else y :: insert x tl end.
Fixpoint isort (l : list key) : list key := match l with [] => [] | x :: tl => insert x (isort tl) end.   (* sorted(keyed_bins) *)

Definition key_le (a b : key) : Prop := fst a < fst b \/ (fst a = fst b /\ snd a <= snd b).
Lemma key_leb_spec a b : key_leb a b = true <-> key_le a b.
Proof. unfold key_leb, key_le. lia. Qed.
Lemma key_le_total a b : key_le a b \/ key_le b a.
Proof. unfold key_le. lia. Qed.
Lemma key_le_trans a b c : key_le a b -> key_le b c -> key_le a c.
Proof. unfold key_le. lia. Qed.

Lemma insert_perm x l : Permutation (x :: l) (insert x l).
Proof.
  induction l as [|y tl IH]; simpl; auto. destruct (key_leb x y); auto.
  eapply perm_trans; [apply perm_swap|]. constructor. exact IH.
Qed.
Lemma isort_perm l : Permutation l (isort l).
Proof. induction l as [|x tl IH]; simpl; auto. eapply perm_trans; [|apply insert_perm]. constructor. exact IH. Qed.

Lemma insert_sorted x l : StronglySorted key_le l -> StronglySorted key_le (insert x l).
Proof.
  induction 1 as [|y tl Hs IH Hall]; simpl; [repeat constructor|].
  destruct (key_leb x y) eqn:E.
  - apply key_leb_spec in E. constructor; [constructor; auto|]. constructor; auto.
    eapply Forall_impl; [|exact Hall]. intros z Hz. eapply key_le_trans; eauto.
  - assert (key_le y x). { destruct (key_le_total x y) as [H|H]; auto. apply key_leb_spec in H. congruence. }
    constructor; auto. eapply Permutation_Forall; [apply insert_perm|]. constructor; auto.
Qed.
Lemma isort_sorted l : StronglySorted key_le (isort l).
Proof. induction l; simpl; [constructor|apply insert_sorted; auto]. Qed.

(* ---- hypotheses about what htslib writes (monitored on every generated index) ---- *)
Definition loff_monotone (bins : list key) : Prop :=
  forall a b, In a bins -> In b bins -> (snd a < snd b -> fst a <= fst b) /\ (snd a = snd b -> fst a = fst b).

(* positions come out non-decreasing *)
Theorem positions_sorted bins : loff_monotone bins -> StronglySorted (fun a b => snd a <= snd b) (isort bins).
Proof.
  intros H.
  assert (Hin: forall x, In x (isort bins) -> In x bins) by (intros x Hx; eapply Permutation_in; [apply Permutation_sym, isort_perm|auto]).
  pose proof (isort_sorted bins) as S. induction S as [|a l Hs IH Hall]; constructor.
  - apply IH. intros x Hx. apply Hin. simpl; auto.
  - rewrite Forall_forall in *. intros b Hb. specialize (Hall b Hb).
    destruct (H b a (Hin b (or_intror Hb)) (Hin a (or_introl eq_refl))) as [H1 _].
    destruct Hall as [Hlt|[Heq Hle]]; [|lia].
    destruct (Z_lt_le_dec (snd b) (snd a)) as [C|C]; [specialize (H1 C); lia|lia].
Qed.

(* two emitted entries with different file offsets (loffset >> 16) have strictly increasing positions:
   exactly the entries np.searchsorted/np.unique can select in one contig *)
Definition file_offset (v : Z) := v / 65536.
Theorem selected_strict bins i j d : loff_monotone bins -> (forall b, In b bins -> 0 <= fst b) ->
  (i < j < length (isort bins))%nat ->
  file_offset (fst (nth i (isort bins) d)) < file_offset (fst (nth j (isort bins) d)) ->
  snd (nth i (isort bins) d) < snd (nth j (isort bins) d).
Proof.
  intros H Hpos Hij Hfo.
  set (l := isort bins) in *.
  assert (Hin: forall x, In x l -> In x bins) by (intros x Hx; eapply Permutation_in; [apply Permutation_sym, isort_perm|auto]).
  pose proof (positions_sorted bins H) as S. fold l in S.
  assert (Hle: snd (nth i l d) <= snd (nth j l d)).
  { clear -S Hij. revert i j Hij. induction S as [|a tl Hs IH Hall]; intros i j Hij; simpl in *; [lia|].
    simpl in Hij. destruct i as [|i], j as [|j]; try lia.
    - rewrite Forall_forall in Hall. apply Hall. apply nth_In. lia.
    - apply IH. lia. }
  destruct (Z.eq_dec (snd (nth i l d)) (snd (nth j l d))) as [E|E]; [|lia].
  assert (Hi: (i < length l)%nat) by lia. assert (Hj: (j < length l)%nat) by lia.
  destruct (H (nth i l d) (nth j l d) (Hin _ (nth_In l d Hi)) (Hin _ (nth_In l d Hj))) as [_ H2].
  specialize (H2 E). unfold file_offset in Hfo. rewrite H2 in Hfo. lia.
Qed.

(* np.searchsorted(side="left") on a non-decreasing haystack: index of the first element >= x *)
Fixpoint ss_left (l : list Z) (x : Z) : nat := match l with [] => 0%nat | y :: tl => if y <? x then S (ss_left tl x) else 0%nat end.
Lemma ss_left_first l x : StronglySorted Z.le l ->
  (forall k, (k < ss_left l x)%nat -> nth k l 0 < x) /\ ((ss_left l x < length l)%nat -> x <= nth (ss_left l x) l 0).
Proof.
  induction 1 as [|y tl Hs IH Hall]; simpl; [split; intros; lia|].
  destruct (y <? x) eqn:E.
  - destruct IH as [I1 I2]. split.
    + intros [|k] Hk; [lia|]. apply I1. lia.
    + intros Hk. apply I2. lia.
  - split; intros; lia.
Qed.
(* distinct selected indices have strictly increasing haystack values: i = ss_left fo a < j = ss_left fo b *)
Theorem selected_offsets_strict fo a b : StronglySorted Z.le fo ->
  (ss_left fo a < ss_left fo b < length fo)%nat -> nth (ss_left fo a) fo 0 < nth (ss_left fo b) fo 0.
Proof.
  intros S Hij. destruct (ss_left_first fo b S) as [B1 B2].
  specialize (B1 (ss_left fo a) ltac:(lia)). specialize (B2 ltac:(lia)). lia.
Qed.
Print Assumptions selected_strict.
Print Assumptions selected_offsets_strict.
