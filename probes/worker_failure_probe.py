import os, time, sys
from bio2zarr import core
def task(i, kind, fail):
    time.sleep(0.01 * (i % 3))
    if i in fail:
        if kind == "exit": os._exit(3)
        if kind == "raise": raise ValueError(f"boom {i}")
    return i
if __name__ == "__main__":
    for kind in ("raise", "exit"):
        for workers in (1, 2, 4):
            for ntasks in (1, 5, 20):
                for fail in ({0}, {ntasks - 1}, {ntasks // 2}):
                    t = time.time()
                    try:
                        with core.ParallelWorkManager(workers) as pwm:
                            for i in range(ntasks):
                                pwm.submit(task, i, kind, fail)
                        res = "SUCCESS(!)"
                    except Exception as e:
                        res = type(e).__name__
                    print(kind, workers, ntasks, fail, res, f"{time.time()-t:.2f}s", flush=True)
