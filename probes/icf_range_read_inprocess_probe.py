"""probe: in-process differential of the real ICF field writer/reader with duck-typed stand-ins (C08)"""
import sys, os, random, shutil, pathlib, types, numpy as np, numcodecs
from bio2zarr.vcf2zarr import icf
def build(seed, root):
    rnd = random.Random(seed)
    nparts = rnd.randint(1, 5)
    parts = [[rnd.choice([None, rnd.randint(-5, 300), tuple(rnd.randint(0, 9) for _ in range(rnd.randint(1, 4)))]) for _ in range(rnd.randint(0 if rnd.random() < 0.2 else 1, 9))] for _ in range(nparts)]
    if sum(map(len, parts)) == 0: parts[0] = [7]
    shutil.rmtree(root, ignore_errors=True); fdir = pathlib.Path(root) / "INFO" / "X"; fdir.mkdir(parents=True)
    field = icf.VcfField(category="INFO", name="X", vcf_number=".", vcf_type="Integer", description="", summary=icf.VcfFieldSummary())
    comp = icf.ICF_DEFAULT_COMPRESSOR
    summaries = []
    for j, vals in enumerate(parts):
        pdir = fdir / f"p{j}"; pdir.mkdir()
        f = icf.VcfField(category="INFO", name="X", vcf_number=".", vcf_type="Integer", description="", summary=icf.VcfFieldSummary())
        w = icf.IcfFieldWriter(f, pdir, icf.VcfValueTransformer.factory(f, 0), comp, max_buffered_bytes=rnd.choice([1, 150, 400, 10**6]))
        for v in vals: w.append(v)
        w.flush(); summaries.append(f.summary)
    for s in summaries: field.summary.update(s)
    fake = types.SimpleNamespace(path=pathlib.Path(root), compressor=comp, num_partitions=nparts, num_records=sum(map(len, parts)),
                                 partition_record_index=np.cumsum([0] + [len(p) for p in parts]))
    return icf.IntermediateColumnarFormatField(fake, field), [v for p in parts for v in p], field
def norm(v): return None if v is None else np.asarray(v).tolist()
def expect(v): return None if v is None else (list(v) if isinstance(v, tuple) else [v])
bad = 0; nranges = 0
for seed in range(300):
    try:
        fld, allv, field = build(seed, "/root/scratch/c8")
    except AssertionError as e:
        # partitions with zero records produce chunk_index [0] -> the reader asserts; real partitions are never empty
        continue
    n = len(allv); exp = [expect(v) for v in allv]
    try:
        got = [norm(v) for v in fld.values]
        assert got == exp, ("values", got, exp)
        for a in range(n):
            for b in range(a + 1, n + 1):
                nranges += 1
                g = [norm(v) for v in fld.iter_values(a, b)]
                assert g == exp[a:b], ("range", a, b)
        ints = [x for v in exp if v is not None for x in v]
        if ints: assert (field.summary.min_value, field.summary.max_value) == (min(ints), max(ints)), "bounds"
        assert field.summary.max_number == max([len(v) for v in exp if v is not None] + [0]), "max_number"
    except AssertionError as e:
        import traceback
        bad += 1; print(seed, "MISMATCH", str(e)[:200], traceback.format_exc().splitlines()[-3:])
    except Exception as e:
        bad += 1; print(seed, "EXC", type(e).__name__, str(e)[:200])
print("bad", bad, "ranges checked", nranges)
