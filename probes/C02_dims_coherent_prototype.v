From Coq Require Import Arith List Bool Lia.
Import ListNotations.

(* dimension naming of the generated schema (post-F3): coherence = one global size per dimension name *)
Inductive dim := DVariants | DSamples | DFilters | DAlleles | DAltAlleles | DGenotypes | DPloidy
               | DField (category : nat) (field_id : nat).     (* "<CAT>_<NAME>_dim" *)
Definition dim_eqb (a b : dim) : bool :=
  match a, b with
  | DVariants, DVariants | DSamples, DSamples | DFilters, DFilters | DAlleles, DAlleles
  | DAltAlleles, DAltAlleles | DGenotypes, DGenotypes | DPloidy, DPloidy => true
  | DField c f, DField c' f' => Nat.eqb c c' && Nat.eqb f f'
  | _, _ => false
  end.

Inductive vnumber := NR | NA | NG | NOther.
Record field := { f_cat : nat; f_id : nat; f_number : vnumber; f_max_number : nat; f_format : bool; f_is_laa : bool }.
Record spec := { dims : list dim; shape : list nat }.

Section Schema.
Variables (m n max_alleles gsize nfilters ploidy : nat).   (* records, samples, ALT.max_number+1, widest G field *)

Definition shared (f : field) : option (dim * nat) :=
  match f_number f with
  | NR => Some (DAlleles, max_alleles) | NA => Some (DAltAlleles, max_alleles - 1) | NG => Some (DGenotypes, gsize)
  | NOther => None end.
(* ZarrArraySpec.from_field with shared_dimension_sizes *)
Definition from_field (f : field) : spec :=
  let base_d := DVariants :: (if f_format f then [DSamples] else []) in
  let base_s := m :: (if f_format f then [n] else []) in
  if (1 <? f_max_number f) || f_is_laa f then
    let d := match shared f with
             | Some (name, size) => if Nat.eqb size (f_max_number f) then name else DField (f_cat f) (f_id f)
             | None => DField (f_cat f) (f_id f) end in
    {| dims := base_d ++ [d]; shape := base_s ++ [f_max_number f] |}
  else {| dims := base_d; shape := base_s |}.

Definition fixed_specs : list spec :=
  [ {| dims := [DVariants]; shape := [m] |};                              (* contig, id, id_mask, quality, position, length *)
    {| dims := [DVariants; DFilters]; shape := [m; nfilters] |};
    {| dims := [DVariants; DAlleles]; shape := [m; max_alleles] |};
    {| dims := [DVariants; DSamples]; shape := [m; n] |};                 (* call_genotype_phased *)
    {| dims := [DVariants; DSamples; DPloidy]; shape := [m; n; ploidy] |} ].
Definition generate (fields : list field) : list spec := fixed_specs ++ map from_field fields.

(* the global size function that every spec conforms to *)
Definition size_of (fields : list field) (d : dim) : nat :=
  match d with
  | DVariants => m | DSamples => n | DFilters => nfilters | DAlleles => max_alleles
  | DAltAlleles => max_alleles - 1 | DGenotypes => gsize | DPloidy => ploidy
  | DField c i => match find (fun f => Nat.eqb (f_cat f) c && Nat.eqb (f_id f) i) fields with
                  | Some f => f_max_number f | None => 0 end
  end.
Fixpoint conforms (sz : dim -> nat) (ds : list dim) (sh : list nat) : Prop :=
  match ds, sh with [], [] => True | d :: ds', s :: sh' => sz d = s /\ conforms sz ds' sh' | _, _ => False end.

Definition ids_unique (fields : list field) : Prop :=
  forall f g, In f fields -> In g fields -> f_cat f = f_cat g -> f_id f = f_id g -> f = g.

Lemma find_self fields f : ids_unique fields -> In f fields ->
  find (fun g => Nat.eqb (f_cat g) (f_cat f) && Nat.eqb (f_id g) (f_id f)) fields = Some f.
Proof.
  intros U Hin. destruct (find _ fields) as [g|] eqn:E.
  - apply find_some in E. destruct E as [Hg E]. apply andb_true_iff in E. destruct E as [E1 E2].
    apply Nat.eqb_eq in E1. apply Nat.eqb_eq in E2. f_equal. apply U; auto.
  - exfalso. eapply find_none in E; eauto. rewrite !Nat.eqb_refl in E. discriminate.
Qed.

Theorem generate_conforms fields : ids_unique fields ->
  Forall (fun s => conforms (size_of fields) (dims s) (shape s)) (generate fields).
Proof.
  intros U. unfold generate. apply Forall_app. split.
  - unfold fixed_specs. repeat constructor.
  - apply Forall_forall. intros s Hs. apply in_map_iff in Hs. destruct Hs as [f [<- Hf]].
    unfold from_field.
    assert (Hself: size_of fields (DField (f_cat f) (f_id f)) = f_max_number f) by (simpl; rewrite find_self; auto).
    destruct ((1 <? f_max_number f) || f_is_laa f); destruct (f_format f); simpl; auto;
    unfold shared; destruct (f_number f); simpl; try (repeat split; auto; fail);
    match goal with |- context [Nat.eqb ?a ?b] => destruct (Nat.eqb_spec a b) end; simpl; repeat split; auto.
Qed.

(* C02 dims_coherent: two arrays sharing a dimension name agree on its length *)
Fixpoint lookup (d : dim) (ds : list dim) (sh : list nat) : option nat :=
  match ds, sh with d' :: ds', s :: sh' => if dim_eqb d d' then Some s else lookup d ds' sh' | _, _ => None end.
Lemma dim_eqb_eq a b : dim_eqb a b = true -> a = b.
Proof. destruct a, b; simpl; try discriminate; auto. intros H. apply andb_true_iff in H. destruct H as [H1 H2].
  apply Nat.eqb_eq in H1. apply Nat.eqb_eq in H2. subst. reflexivity. Qed.
Lemma lookup_conforms sz d : forall ds sh s, conforms sz ds sh -> lookup d ds sh = Some s -> sz d = s.
Proof.
  induction ds as [|d' ds IH]; intros [|s' sh] s Hc Hl; simpl in *; try discriminate; try tauto.
  destruct Hc as [H1 H2]. destruct (dim_eqb d d') eqn:E.
  - apply dim_eqb_eq in E. subst. inversion Hl; subst. reflexivity.
  - eapply IH; eauto.
Qed.
Theorem dims_coherent fields a b d sa sb : ids_unique fields ->
  In a (generate fields) -> In b (generate fields) ->
  lookup d (dims a) (shape a) = Some sa -> lookup d (dims b) (shape b) = Some sb -> sa = sb.
Proof.
  intros U Ha Hb La Lb. pose proof (generate_conforms fields U) as G. rewrite Forall_forall in G.
  rewrite <- (lookup_conforms _ d _ _ _ (G a Ha) La), <- (lookup_conforms _ d _ _ _ (G b Hb) Lb). reflexivity.
Qed.
End Schema.
Print Assumptions dims_coherent.
