import os, sys
_log = os.environ.get("VERIF_AUDIT_LOG")
_crash = os.environ.get("VERIF_CRASH_MATCH")  # "event|substr|nth"
_MUT = {"os.mkdir", "os.rename", "os.remove", "os.rmdir", "os.truncate", "os.link", "os.symlink"}
if _log or _crash:
    _fd = os.open(_log, os.O_WRONLY | os.O_APPEND | os.O_CREAT, 0o644) if _log else None
    _cnt = [0]
    if _crash:
        _cev, _csub, _cn = _crash.split("|"); _cn = int(_cn)
    def _hook(ev, args):
        mut = None
        if ev == "open":
            p, mode, flags = args
            if isinstance(p, (str, bytes)) and isinstance(flags, int) and (flags & (os.O_WRONLY | os.O_RDWR | os.O_CREAT | os.O_TRUNC)):
                mut = ("open", str(p))
        elif ev in _MUT:
            mut = (ev, repr(args))
        if mut is None: return
        if _fd is not None:
            os.write(_fd, (f"{os.getpid()}\t{mut[0]}\t{mut[1]}\n").encode())
        if _crash and mut[0] == _cev and _csub in mut[1]:
            _cnt[0] += 1
            if _cnt[0] == _cn:
                os._exit(137)
    sys.addaudithook(_hook)
