import os, sys
_log = os.environ.get("VERIF_AUDIT_LOG")
_crash = os.environ.get("VERIF_CRASH_AT")      # "k" or "k:tear"  (k = index of the mutation before which to die, 0-based)
_MUT = {"os.mkdir", "os.rename", "os.remove", "os.rmdir", "os.truncate", "os.link", "os.symlink"}
if _log or _crash:
    _fd = os.open(_log, os.O_WRONLY | os.O_APPEND | os.O_CREAT, 0o644) if _log else None
    _cnt = [0]; _last = [None]
    _k, _tear = (None, None)
    if _crash:
        parts = _crash.split(":"); _k = int(parts[0]); _tear = parts[1] if len(parts) > 1 else None
    _root = os.environ.get("VERIF_AUDIT_ROOT", "")
    def _abs(p, dir_fd=None):
        try:
            p = os.fsdecode(p)
            if dir_fd is not None and isinstance(dir_fd, int) and dir_fd >= 0 and not os.path.isabs(p):
                p = os.path.join(os.readlink(f"/proc/self/fd/{dir_fd}"), p)
            return os.path.abspath(p)
        except Exception:
            return str(p)
    def _hook(ev, args):
        mut = None
        if ev == "open":
            p, mode, flags = args
            if isinstance(p, (str, bytes)) and isinstance(flags, int) and (flags & (os.O_WRONLY | os.O_RDWR | os.O_CREAT | os.O_TRUNC)):
                mut = ("open", _abs(p))
        elif ev in _MUT:
            if ev == "os.rename": mut = (ev, _abs(args[0], args[2]) + " -> " + _abs(args[1], args[3]))
            elif ev in ("os.remove", "os.rmdir"): mut = (ev, _abs(args[0], args[1]))
            elif ev == "os.mkdir": mut = (ev, _abs(args[0], args[2]))
            else: mut = (ev, repr(args))
        if mut is None or (_root and _root not in mut[1]): return
        if _k is not None and _cnt[0] == _k:
            if _tear is not None and _last[0] and os.path.isfile(_last[0]):
                sz = os.path.getsize(_last[0])
                with open(_last[0], "r+b") as f: f.truncate(0 if _tear == "0" else sz // 2)
            os._exit(137)
        if _fd is not None:
            os.write(_fd, (f"{_cnt[0]}\t{mut[0]}\t{mut[1]}\n").encode())
        _cnt[0] += 1
        if mut[0] == "open": _last[0] = mut[1]
    sys.addaudithook(_hook)
