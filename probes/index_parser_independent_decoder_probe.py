import sys, gzip, struct, glob, os, random, collections
sys.path.insert(0, '.')
from mk import *
from bio2zarr import vcf_utils
import cyvcf2
def dec_csi(b):
    o = 0
    def rd(fmt):
        nonlocal o; v = struct.unpack_from(fmt, b, o); o += struct.calcsize(fmt); return v
    assert b[:4] == b"CSI\x01"; o = 4
    min_shift, depth, l_aux = rd("<iii"); aux = b[o:o + l_aux]; o += l_aux
    (n_ref,) = rd("<i"); pseudo = ((1 << (depth + 1) * 3) - 1) // 7 + 1
    refs = []
    for _ in range(n_ref):
        (n_bin,) = rd("<i"); bins = []; cnt = 0 if n_bin == 0 else None
        for _ in range(n_bin):
            bn, loff, n_chunk = rd("<IQi"); chunks = [rd("<QQ") for _ in range(n_chunk)]
            bins.append((bn, loff, chunks))
            if bn == pseudo: cnt = chunks[1][0] + chunks[1][1]
        refs.append((bins, cnt))
    n_no_coor = rd("<Q")[0] if o < len(b) else 0
    assert o == len(b)
    return dict(min_shift=min_shift, depth=depth, aux=aux, refs=refs, n_no_coor=n_no_coor)
def dec_tbi(b):
    o = 0
    def rd(fmt):
        nonlocal o; v = struct.unpack_from(fmt, b, o); o += struct.calcsize(fmt); return v
    assert b[:4] == b"TBI\x01"; o = 4
    n_ref, fmt, cs, cb, ce, meta, skip, l_nm = rd("<8i"); names = b[o:o + l_nm].split(b"\0")[:-1]; o += l_nm
    refs = []
    for _ in range(n_ref):
        (n_bin,) = rd("<i"); bins = []; cnt = 0 if n_bin == 0 else None
        for _ in range(n_bin):
            bn, n_chunk = rd("<Ii"); chunks = [rd("<QQ") for _ in range(n_chunk)]
            bins.append((bn, chunks))
            if bn == 37450: cnt = chunks[1][0] + chunks[1][1]
        (n_intv,) = rd("<i"); lin = [rd("<Q")[0] for _ in range(n_intv)]
        refs.append((bins, lin, cnt))
    n_no_coor = rd("<Q")[0] if o < len(b) else 0
    assert o == len(b)
    return dict(names=[n.decode() for n in names], refs=refs, n_no_coor=n_no_coor)
def cmp_csi(path):
    ours = dec_csi(gzip.open(path).read()); th = vcf_utils.read_csi(path)
    assert (th.min_shift, th.depth, th.n_no_coor) == (ours["min_shift"], ours["depth"], ours["n_no_coor"])
    assert (th.aux or b"") == ours["aux"] or (th.aux == "" and ours["aux"] == b"")
    assert len(th.bins) == len(ours["refs"])
    for bs, rc, (obs, oc) in zip(th.bins, th.record_counts, ours["refs"]):
        assert [(x.bin, x.loffset, [(c.cnk_beg, c.cnk_end) for c in x.chunks]) for x in bs] == [(a, l, [tuple(c) for c in cs]) for a, l, cs in obs]
        assert (rc == vcf_utils.RECORD_COUNT_UNKNOWN and oc is None) or rc == oc, (rc, oc)
def cmp_tbi(path):
    ours = dec_tbi(gzip.open(path).read()); th = vcf_utils.read_tabix(path)
    assert list(th.sequence_names) == ours["names"] and th.n_no_coor == ours["n_no_coor"]
    for bs, lin, rc, (obs, olin, oc) in zip(th.bins, th.linear_indexes, th.record_counts, ours["refs"]):
        assert [(x.bin, [(c.cnk_beg, c.cnk_end) for c in x.chunks]) for x in bs] == [(a, [tuple(c) for c in cs]) for a, cs in obs]
        assert list(lin) == olin
        assert (rc == vcf_utils.RECORD_COUNT_UNKNOWN and oc is None) or rc == oc, (rc, oc)
n = 0
for f in sorted(glob.glob("/repo/tests/data/vcf/*.csi")): cmp_csi(f); n += 1
for f in sorted(glob.glob("/repo/tests/data/vcf/*.tbi")): cmp_tbi(f); n += 1
print("test-data indexes agree:", n)
# generated: counts vs actual records, names vs header
hdr = ['##contig=<ID=chrA,length=10000000>', '##contig=<ID=chrB,length=10000000>', '##contig=<ID=chrC,length=10000000>', '##FILTER=<ID=PASS,Description="p">']
bad = 0
for seed in range(60):
    rnd = random.Random(seed); recs = []; truth = collections.Counter()
    for c in rnd.sample(["chrA", "chrB", "chrC"], rnd.randint(1, 3)) if False else [c for c in ["chrA", "chrB", "chrC"] if rnd.random() < 0.7] or ["chrB"]:
        pos = rnd.randint(1, 100000)
        for _ in range(rnd.randint(1, 40)):
            recs.append(f"{c}\t{pos}\t.\tA\tT\t.\tPASS\t."); truth[c] += 1; pos += rnd.choice([0, 3, 20000, 300000])
    write_vcf("e28.vcf", hdr, recs)
    for kind, ms, bcf in [("tbi", 14, False), ("csi", rnd.choice([9, 11, 14, 17, 20]), False), ("csi", rnd.choice([9, 14, 20]), True)]:
        p = index("e28.vcf", kind=kind, min_shift=ms, bcf=bcf)
        try:
            if kind == "tbi": cmp_tbi(p + ".tbi")
            else: cmp_csi(p + ".csi")
            with vcf_utils.IndexedVcf(p) as iv:
                got = {k: v for k, v in iv.contig_record_counts().items() if v}
            assert got == dict(truth), (got, dict(truth))
        except AssertionError as e:
            bad += 1; print(seed, kind, ms, bcf, "MISMATCH", str(e)[:200])
print("generated mismatches", bad)
