From Coq Require Import ZArith List Bool Lia ZifyBool.
Import ListNotations.
Open Scope Z_scope.
Ltac Zify.zify_post_hook ::= Z.to_euclidean_division_equations.

Notation bytes := (list Z).

(* ---- little-endian fixed-width unsigned fields ---- *)
Fixpoint le (n : nat) (v : Z) : bytes :=
  match n with O => [] | S n' => (v mod 256) :: le n' (v / 256) end.
Fixpoint rd (n : nat) (b : bytes) : option (Z * bytes) :=
  match n with
  | O => Some (0, b)
  | S n' => match b with
            | [] => None
            | x :: tl => match rd n' tl with Some (v, rest) => Some (x + 256 * v, rest) | None => None end
            end
  end.
Lemma rd_le n : forall v rest, 0 <= v < 256 ^ Z.of_nat n -> rd n (le n v ++ rest) = Some (v, rest).
Proof.
  induction n as [|n IH]; intros v rest Hv.
  - simpl in *. f_equal. f_equal. lia.
  - cbn [le rd app]. rewrite IH.
    + f_equal. f_equal. lia.
    + rewrite Nat2Z.inj_succ, Z.pow_succ_r in Hv by lia. lia.
Qed.
Lemma le_length n v : length (le n v) = n.
Proof. revert v; induction n; intros; simpl; auto. Qed.

(* ---- CSI bins:  bin:u32  loffset:u64  n_chunk:i32  (beg:u64 end:u64)*  ---- *)
Record bin := { b_id : Z; b_loff : Z; b_chunks : list (Z * Z) }.

Fixpoint ser_chunks (cs : list (Z * Z)) : bytes :=
  match cs with [] => [] | (b, e) :: tl => le 8 b ++ le 8 e ++ ser_chunks tl end.
Definition ser_bin (x : bin) : bytes :=
  le 4 (b_id x) ++ le 8 (b_loff x) ++ le 4 (Z.of_nat (length (b_chunks x))) ++ ser_chunks (b_chunks x).
Fixpoint ser_bins (bs : list bin) : bytes := match bs with [] => [] | x :: tl => ser_bin x ++ ser_bins tl end.

Fixpoint parse_chunks (n : nat) (b : bytes) : option (list (Z * Z) * bytes) :=
  match n with
  | O => Some ([], b)
  | S n' => match rd 8 b with
            | Some (cb, b1) => match rd 8 b1 with
                               | Some (ce, b2) => match parse_chunks n' b2 with
                                                  | Some (cs, rest) => Some ((cb, ce) :: cs, rest)
                                                  | None => None end
                               | None => None end
            | None => None end
  end.
(* counts come from the data: refuse a count the remaining bytes cannot hold *before* turning it into a nat *)
Definition guarded_count (v : Z) (unit : Z) (b : bytes) : option nat :=
  if (0 <=? v) && (v * unit <=? Z.of_nat (length b)) then Some (Z.to_nat v) else None.

Definition parse_bin (b : bytes) : option (bin * bytes) :=
  match rd 4 b with
  | Some (id, b1) => match rd 8 b1 with
    | Some (loff, b2) => match rd 4 b2 with
      | Some (nc, b3) => match guarded_count nc 16 b3 with
        | Some n => match parse_chunks n b3 with
                    | Some (cs, rest) => Some ({| b_id := id; b_loff := loff; b_chunks := cs |}, rest)
                    | None => None end
        | None => None end
      | None => None end
    | None => None end
  | None => None end.
Fixpoint parse_bins (n : nat) (b : bytes) : option (list bin * bytes) :=
  match n with
  | O => Some ([], b)
  | S n' => match parse_bin b with
            | Some (x, b1) => match parse_bins n' b1 with Some (xs, rest) => Some (x :: xs, rest) | None => None end
            | None => None end
  end.

Definition chunk_ok (c : Z * Z) := 0 <= fst c < 2 ^ 64 /\ 0 <= snd c < 2 ^ 64.
Definition bin_ok (x : bin) := 0 <= b_id x < 2 ^ 32 /\ 0 <= b_loff x < 2 ^ 64 /\ Forall chunk_ok (b_chunks x) /\ Z.of_nat (length (b_chunks x)) < 2 ^ 31.

Lemma parse_ser_chunks cs : Forall chunk_ok cs -> forall rest, parse_chunks (length cs) (ser_chunks cs ++ rest) = Some (cs, rest).
Proof.
  induction 1 as [|[cb ce] tl [H1 H2] _ IH]; intros rest; cbn [length parse_chunks]; auto.
  cbn [ser_chunks]. rewrite <- !app_assoc. simpl in H1, H2.
  rewrite (rd_le 8) by (simpl; lia). rewrite (rd_le 8) by (simpl; lia). rewrite IH. reflexivity.
Qed.
Lemma ser_chunks_length cs : length (ser_chunks cs) = (16 * length cs)%nat.
Proof. induction cs as [|[b e] tl IH]; [reflexivity|]. cbn [ser_chunks]. rewrite !app_length, !le_length, IH. cbn [length]. lia. Qed.

Lemma parse_ser_bin x rest : bin_ok x -> parse_bin (ser_bin x ++ rest) = Some (x, rest).
Proof.
  intros [H1 [H2 [H3 H4]]]. unfold parse_bin, ser_bin. rewrite <- !app_assoc.
  rewrite (rd_le 4) by (simpl; lia). rewrite (rd_le 8) by (simpl; lia). rewrite (rd_le 4) by (simpl; lia).
  unfold guarded_count.
  assert (E: (0 <=? Z.of_nat (length (b_chunks x))) && (Z.of_nat (length (b_chunks x)) * 16 <=? Z.of_nat (length (ser_chunks (b_chunks x) ++ rest))) = true).
  { rewrite app_length, ser_chunks_length. lia. }
  rewrite E, Nat2Z.id, parse_ser_chunks by auto. destruct x; reflexivity.
Qed.

Theorem parse_ser_bins bs : Forall bin_ok bs -> forall rest, parse_bins (length bs) (ser_bins bs ++ rest) = Some (bs, rest).
Proof.
  induction 1 as [|x tl Hx _ IH]; intros rest; cbn [length parse_bins ser_bins]; auto.
  rewrite <- app_assoc, parse_ser_bin, IH by auto. reflexivity.
Qed.
Print Assumptions parse_ser_bins.
