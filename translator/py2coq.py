#!/venv/bin/python
"""py2coq.py -- fail-closed translator from the pure integer functions of /repo/bio2zarr
to Gallina (coq/Gen/*.v).  Regenerated on every check run; Bridge/*.v proves the
generated definitions equal to the hand-written models, so the theorems are re-checked
against what the source says now.

Supported subset (anything else -> Unsupported -> the unit is not emitted -> the bridge
lemma for it no longer compiles -> tie broken):
  integer expressions + - * // % << >> & , comparisons, and/or/not, min/max/int/len,
  attribute reads on parameters (obj.attr -> parameter obj_attr; obj.shape[0] ->
  obj_shape_0), local assignments, `if c: raise E`, `if c: x = e`, `if v is not None:`,
  `return`, `raise`, `assert`, and five loop shapes:
    L1  for x in [<str literals>]: info = np.iinfo(x); if c: return x     (unrolled)
    L2  for i in range(hi, -1, -1): if c: return i                        (search)
    L3  acc = []; for s in <list expr>: ...; acc.append(e)   ...return acc (mapM)
        (also written as  return [e for s in <list expr>])
    L4  for i in range(1, len(xs)): a = xs[i-1].f; b = xs[i].f; <checks>  (adjacent)
  numpy primitives: np.array_split(np.arange(n), k), np.iinfo(t).min/.max,
  int(np.ceil(a / b)), s[0] / s[-1] on a section.
Logging calls, docstrings, annotations and comments are ignored; variable names are
carried through (shadowing is handled by Gallina `let`).
"""
import ast
import os
import sys

REPO = os.environ.get("VERIF_REPO", "/repo")
SRC = {
    "core": "bio2zarr/core.py",
    "vcz": "bio2zarr/vcf2zarr/vcz.py",
    "vcf_utils": "bio2zarr/vcf_utils.py",
    "icf": "bio2zarr/vcf2zarr/icf.py",
}

# unit -> list of (module, qualified name).  Order matters (callees first).
UNITS = {
    "GenPartitions": [("vcz", "VcfZarrPartition.generate_partitions"), ("core", "chunk_aligned_slices")],
    "GenDtype": [("core", "min_int_dtype")],
    "GenBins": [
        ("vcf_utils", "ceildiv"),
        ("vcf_utils", "get_file_offset"),
        ("vcf_utils", "bin_limit"),
        ("vcf_utils", "get_first_bin_in_level"),
        ("vcf_utils", "get_level_size"),
        ("vcf_utils", "get_level_for_bin"),
        ("vcf_utils", "get_first_locus_in_bin"),
    ],
    "GenOverlap": [("icf", "check_overlapping_partitions")],
}

EXC = {
    "ValueError": "E_ValueError",
    "OverflowError": "E_OverflowError",
    "AssertionError": "E_AssertionError",
    "IndexError": "E_IndexError",
    "RuntimeError": "E_RuntimeError",
}
DTYPE_CODES = {"i1": 1, "i2": 2, "i4": 4, "i8": 8}


class Unsupported(Exception):
    pass


def find(tree, qual):
    node = tree
    for name in qual.split("."):
        for n in node.body:
            if isinstance(n, (ast.FunctionDef, ast.ClassDef)) and n.name == name:
                node = n
                break
        else:
            raise Unsupported("not found: " + qual)
    return node


BIN = {ast.Add: "+", ast.Sub: "-", ast.Mult: "*", ast.FloorDiv: "/", ast.Mod: "mod"}
CMP = {ast.Lt: "<?", ast.LtE: "<=?", ast.Gt: ">?", ast.GtE: ">=?", ast.Eq: "=?"}


class Fn:
    """Translation context for one function."""

    def __init__(self, node, known):
        self.node = node
        self.known = known  # name -> dict(raises=bool, params=[...], objparams={...})
        self.params = []  # final Coq parameter list [(name, type)]
        self.optional = set()
        self.objattrs = {}  # python param -> ordered list of attr-derived coq params
        self.raises = self._may_raise(node)
        self.tmp = 0
        self.unwrapped = {}
        self.locals = set()
        self.sections = set()  # loop variables that denote array_split sections
        self.lists = {}  # name -> element kind for list-typed locals
        self.recparams = {}  # param -> record element type

    # ---- analysis -----------------------------------------------------------
    def _may_raise(self, node):
        for n in ast.walk(node):
            if isinstance(n, (ast.Raise, ast.Assert)):
                return True
            if isinstance(n, ast.Call):
                f = ast.unparse(n.func)
                if f == "np.array_split":
                    return True
                if f in self.known and self.known[f]["raises"]:
                    return True
        return False

    def fresh(self, base="t"):
        self.tmp += 1
        return f"{base}_{self.tmp}"

    # ---- expressions --------------------------------------------------------
    def expr(self, e, binds):
        """Translate expression e to a Coq term of type Z / bool / etc.  Sub-expressions
        that can raise are hoisted into `binds` [(name, res-typed term)]."""
        src = ast.unparse(e)
        if src in self.unwrapped:
            return self.unwrapped[src]
        if isinstance(e, ast.Constant):
            if isinstance(e.value, bool):
                return "true" if e.value else "false"
            if isinstance(e.value, int):
                return str(e.value) if e.value >= 0 else f"({e.value})"
            if isinstance(e.value, str) and e.value in DTYPE_CODES:
                return str(DTYPE_CODES[e.value])
            raise Unsupported("constant " + src)
        if isinstance(e, ast.Name):
            return e.id
        if isinstance(e, ast.UnaryOp):
            if isinstance(e.op, ast.USub):
                return f"(- {self.expr(e.operand, binds)})"
            if isinstance(e.op, ast.Not):
                return f"(negb {self.expr(e.operand, binds)})"
        if isinstance(e, ast.BinOp):
            l, r = self.expr(e.left, binds), self.expr(e.right, binds)
            if type(e.op) in BIN:
                return f"({l} {BIN[type(e.op)]} {r})"
            if isinstance(e.op, ast.LShift):
                return f"(Z.shiftl {l} {r})"
            if isinstance(e.op, ast.RShift):
                return f"(Z.shiftr {l} {r})"
            if isinstance(e.op, ast.BitAnd):
                return f"(Z.land {l} {r})"
            raise Unsupported("binop " + src)
        if isinstance(e, ast.Compare):
            if len(e.ops) != 1:
                # a <= b <= c  ->  conjunction
                parts = []
                left = e.left
                for op, right in zip(e.ops, e.comparators):
                    parts.append(self.expr(ast.Compare(left, [op], [right]), binds))
                    left = right
                return "(" + " && ".join(parts) + ")"
            op = e.ops[0]
            if type(op) in CMP:
                return f"({self.expr(e.left, binds)} {CMP[type(op)]} {self.expr(e.comparators[0], binds)})"
            if isinstance(op, ast.NotEq):
                return f"(negb ({self.expr(e.left, binds)} =? {self.expr(e.comparators[0], binds)}))"
            raise Unsupported("compare " + src)
        if isinstance(e, ast.BoolOp):
            vals = [self.expr(v, binds) for v in e.values]
            return "(" + (" && " if isinstance(e.op, ast.And) else " || ").join(vals) + ")"
        if isinstance(e, ast.Attribute):
            return self.attr(e, binds)
        if isinstance(e, ast.Subscript):
            return self.subscript(e, binds)
        if isinstance(e, ast.Tuple):
            return "(" + ", ".join(self.expr(x, binds) for x in e.elts) + ")"
        if isinstance(e, ast.Call):
            return self.call(e, binds)
        raise Unsupported("expr " + src)

    def attr(self, e, binds):
        src = ast.unparse(e)
        # np.iinfo(x).min / .max where info = np.iinfo(x) was inlined as a pair
        if isinstance(e.value, ast.Name) and e.value.id in self.lists and self.lists[e.value.id] == "iinfo":
            if e.attr in ("min", "max"):
                return f"({'fst' if e.attr == 'min' else 'snd'} {e.value.id})"
        if isinstance(e.value, ast.Name) and e.value.id in self.objattrs:
            name = f"{e.value.id}_{e.attr}"
            if name not in self.objattrs[e.value.id]:
                self.objattrs[e.value.id].append(name)
            return name
        # record field of a local bound to a region
        if isinstance(e.value, ast.Name) and self.lists.get(e.value.id) == "region":
            fld = {"contig": "r_contig", "start": "r_start", "end": "r_end"}.get(e.attr)
            if fld is None:
                raise Unsupported("region field " + src)
            return f"({fld} {e.value.id})"
        raise Unsupported("attribute " + src)

    def subscript(self, e, binds):
        src = ast.unparse(e)
        idx = ast.unparse(e.slice)
        # z.shape[0] / z.chunks[0] on an object parameter
        if isinstance(e.value, ast.Attribute) and isinstance(e.value.value, ast.Name) and e.value.value.id in self.objattrs:
            if not idx.isdigit():
                raise Unsupported("subscript " + src)
            name = f"{e.value.value.id}_{e.value.attr}_{idx}"
            if name not in self.objattrs[e.value.value.id]:
                self.objattrs[e.value.value.id].append(name)
            return name
        if isinstance(e.value, ast.Name) and e.value.id in self.sections:
            if idx == "0":
                t = self.fresh("first")
                binds.append((t, f"sec_first {e.value.id}"))
                return t
            if idx == "-1":
                t = self.fresh("last")
                binds.append((t, f"sec_last {e.value.id}"))
                return t
        raise Unsupported("subscript " + src)

    def call(self, e, binds):
        f = ast.unparse(e.func)
        src = ast.unparse(e)
        if e.keywords:
            raise Unsupported("keywords " + src)
        if f in ("min", "max") and len(e.args) == 2:
            return f"(Z.{f} {self.expr(e.args[0], binds)} {self.expr(e.args[1], binds)})"
        if f == "int" and len(e.args) == 1:
            a = e.args[0]
            if (
                isinstance(a, ast.Call)
                and ast.unparse(a.func) == "np.ceil"
                and len(a.args) == 1
                and isinstance(a.args[0], ast.BinOp)
                and isinstance(a.args[0].op, ast.Div)
            ):
                return f"(ceil_truediv {self.expr(a.args[0].left, binds)} {self.expr(a.args[0].right, binds)})"
            return self.expr(a, binds)  # int() of an integer-valued expression
        if f == "np.array_split" and len(e.args) == 2:
            a0 = e.args[0]
            if isinstance(a0, ast.Call) and ast.unparse(a0.func) == "np.arange" and len(a0.args) == 1 and not a0.keywords:
                t = self.fresh("splits")
                binds.append((t, f"array_split_arange {self.expr(a0.args[0], binds)} {self.expr(e.args[1], binds)}"))
                self.lists[t] = "section"
                return t
        if f == "np.iinfo" and len(e.args) == 1:
            x = self.expr(e.args[0], binds)
            return f"(iinfo_min {x}, iinfo_max {x})"
        if f == "VcfZarrPartition" and len(e.args) == 2:
            return f"({self.expr(e.args[0], binds)}, {self.expr(e.args[1], binds)})"
        if f in self.known:
            k = self.known[f]
            args = []
            for a, (pname, pobj) in zip(e.args, k["pyparams"]):
                if pobj is not None:
                    # object parameter: pass the attributes the callee reads
                    if not isinstance(a, ast.Name) or a.id not in self.objattrs:
                        raise Unsupported("object argument " + src)
                    for cp in pobj:
                        suffix = cp[len(pname) + 1 :]
                        mine = f"{a.id}_{suffix}"
                        if mine not in self.objattrs[a.id]:
                            self.objattrs[a.id].append(mine)
                        args.append(mine)
                else:
                    args.append(self.expr(a, binds))
            if len(e.args) != len(k["pyparams"]):
                raise Unsupported("arity " + src)
            term = "(" + " ".join([f] + args) + ")"
            if k["raises"]:
                t = self.fresh("r")
                binds.append((t, term))
                return t
            return term
        raise Unsupported("call " + src)

    # ---- statements ---------------------------------------------------------
    def ret(self, term):
        return f"Ok {term}" if self.raises else term

    def wrap(self, binds, body):
        for name, term in reversed(binds):
            body = f"bind ({term}) (fun {name} =>\n  {body})"
        return body

    def skip(self, s):
        if isinstance(s, ast.Expr) and isinstance(s.value, ast.Constant):
            return True  # docstring
        if isinstance(s, ast.Expr) and isinstance(s.value, ast.Call) and ast.unparse(s.value.func).startswith("logger."):
            return True
        if isinstance(s, ast.Pass):
            return True
        return False

    def block(self, stmts, fallthrough=None):
        """Translate a statement list to a term (type res T if self.raises else T)."""
        if not stmts:
            if fallthrough is None:
                raise Unsupported("fallthrough without value")
            return fallthrough
        s, rest = stmts[0], stmts[1:]
        if self.skip(s):
            return self.block(rest, fallthrough)
        if isinstance(s, ast.Return) and isinstance(s.value, ast.ListComp):
            # return [e for x in xs]   ==   acc = []; for x in xs: acc.append(e); return acc      (L3)
            lc = s.value
            if len(lc.generators) != 1 or lc.generators[0].ifs or lc.generators[0].is_async:
                raise Unsupported("comprehension shape: " + ast.unparse(s)[:80])
            acc = "acc__"
            loop = ast.For(target=lc.generators[0].target, iter=lc.generators[0].iter,
                           body=[ast.Expr(value=ast.Call(func=ast.Attribute(value=ast.Name(id=acc, ctx=ast.Load()), attr="append", ctx=ast.Load()),
                                                         args=[lc.elt], keywords=[]))], orelse=[])
            return self.acc_loop(acc, [loop, ast.Return(value=ast.Name(id=acc, ctx=ast.Load()))])
        if isinstance(s, ast.Return):
            binds = []
            t = self.expr(s.value, binds)
            return self.wrap(binds, self.ret(t))
        if isinstance(s, ast.Raise):
            return self.raise_(s)
        if isinstance(s, ast.Assert):
            return self.assert_(s, rest, fallthrough)
        if isinstance(s, ast.Assign) and len(s.targets) == 1 and isinstance(s.targets[0], ast.Name):
            name = s.targets[0].id
            if isinstance(s.value, ast.List) and not s.value.elts:
                return self.acc_loop(name, rest)
            binds = []
            if isinstance(s.value, ast.Call) and ast.unparse(s.value.func) == "np.iinfo":
                self.lists[name] = "iinfo"
            t = self.expr(s.value, binds)
            if t in self.lists and self.lists[t] == "section":
                self.lists[name] = "section"
            self.locals.add(name)
            return self.wrap(binds, f"let {name} := {t} in\n  {self.block(rest, fallthrough)}")
        if isinstance(s, ast.If):
            return self.if_(s, rest, fallthrough)
        if isinstance(s, ast.For):
            return self.for_(s, rest, fallthrough)
        raise Unsupported(type(s).__name__ + ": " + ast.unparse(s)[:80])

    def raise_(self, s):
        if not self.raises:
            raise Unsupported("raise in pure function")
        exc = s.exc
        name = ast.unparse(exc.func) if isinstance(exc, ast.Call) else ast.unparse(exc)
        if name not in EXC:
            raise Unsupported("exception " + name)
        return f"Err {EXC[name]}"

    def assert_(self, s, rest, fallthrough):
        t = s.test
        if isinstance(t, ast.Compare) and isinstance(t.ops[0], ast.IsNot) and ast.unparse(t.comparators[0]) == "None":
            binds = []
            opt = self.expr(t.left, binds)
            v = self.fresh("v")
            self.unwrapped[ast.unparse(t.left)] = v
            body = self.block(rest, fallthrough)
            return self.wrap(binds, f"match {opt} with Some {v} => {body} | None => Err E_AssertionError end")
        binds = []
        c = self.expr(t, binds)
        return self.wrap(binds, f"if {c} then {self.block(rest, fallthrough)} else Err E_AssertionError")

    def if_(self, s, rest, fallthrough):
        t = s.test
        # if v is not None: x = e
        if (
            isinstance(t, ast.Compare)
            and isinstance(t.ops[0], ast.IsNot)
            and ast.unparse(t.comparators[0]) == "None"
            and isinstance(t.left, ast.Name)
            and len(s.body) == 1
            and isinstance(s.body[0], ast.Assign)
            and not s.orelse
        ):
            v = t.left.id
            self.optional.add(v)
            tgt = s.body[0].targets[0].id
            binds = []
            val = self.expr(s.body[0].value, binds)
            if binds:
                raise Unsupported("raising expression under optional")
            return f"let {tgt} := match {v} with Some {v} => {val} | None => {tgt} end in\n  {self.block(rest, fallthrough)}"
        binds = []
        c = self.expr(t, binds)
        last = s.body[-1]
        if isinstance(last, (ast.Return, ast.Raise)) and not s.orelse:
            then = self.block(s.body)
            return self.wrap(binds, f"if {c} then {then} else\n  {self.block(rest, fallthrough)}")
        if len(s.body) == 1 and isinstance(s.body[0], ast.Assign) and not s.orelse and isinstance(s.body[0].targets[0], ast.Name):
            tgt = s.body[0].targets[0].id
            b2 = []
            val = self.expr(s.body[0].value, b2)
            if b2:
                raise Unsupported("raising expression under if")
            return self.wrap(binds, f"let {tgt} := if {c} then {val} else {tgt} in\n  {self.block(rest, fallthrough)}")
        if not s.orelse:
            # general: body falls through to rest
            cont = self.block(rest, fallthrough)
            k = self.fresh("k")
            then = self.block(s.body, f"{k} tt")
            return self.wrap(binds, f"let {k} := fun (_ : unit) => {cont} in\n  if {c} then {then} else {k} tt")
        raise Unsupported("if shape: " + ast.unparse(s)[:80])

    def acc_loop(self, acc, rest):
        """acc = []; (assignments)*; for x in xs: ...; acc.append(e); return acc"""
        pre = []
        i = 0
        while i < len(rest) and not isinstance(rest[i], ast.For):
            pre.append(rest[i])
            i += 1
        if i >= len(rest):
            raise Unsupported("accumulator without loop")
        loop, after = rest[i], rest[i + 1 :]
        if not (len(after) == 1 and isinstance(after[0], ast.Return) and ast.unparse(after[0].value) == acc):
            raise Unsupported("accumulator loop must be followed by return " + acc)
        if not isinstance(loop.target, ast.Name) or loop.orelse:
            raise Unsupported("loop target")

        def loop_term():
            binds = []
            it = self.expr(loop.iter, binds)
            x = loop.target.id
            if self.lists.get(it) == "section" or self.lists.get(ast.unparse(loop.iter)) == "section":
                self.sections.add(x)
            *lets, last = [b for b in loop.body if not self.skip(b)]
            if not (
                isinstance(last, ast.Expr)
                and isinstance(last.value, ast.Call)
                and ast.unparse(last.value.func) == acc + ".append"
                and len(last.value.args) == 1
            ):
                raise Unsupported("loop must end with append")
            ret_stmt = ast.Return(value=last.value.args[0])
            saved = self.raises
            # the loop body is always monadic when the function is
            body = self.block(lets + [ret_stmt])
            self.raises = saved
            if self.raises:
                return self.wrap(binds, f"mapM (fun {x} =>\n  {body}) {it}")
            return self.wrap(binds, f"map (fun {x} =>\n  {body}) {it}")

        # translate the prefix statements, then the loop as the continuation
        class Cont(ast.stmt):
            pass

        return self._block_then(pre, loop_term)

    def _block_then(self, stmts, k):
        if not stmts:
            return k()
        s, rest = stmts[0], stmts[1:]
        if self.skip(s):
            return self._block_then(rest, k)
        if isinstance(s, ast.Assign) and len(s.targets) == 1 and isinstance(s.targets[0], ast.Name):
            name = s.targets[0].id
            binds = []
            t = self.expr(s.value, binds)
            if t in self.lists:
                self.lists[name] = self.lists[t]
            return self.wrap(binds, f"let {name} := {t} in\n  {self._block_then(rest, k)}")
        raise Unsupported("statement before loop: " + ast.unparse(s)[:80])

    def for_(self, s, rest, fallthrough):
        it = s.iter
        # L1: unrolled literal list
        if isinstance(it, ast.List) and all(isinstance(x, ast.Constant) for x in it.elts) and isinstance(s.target, ast.Name):
            after = self.block(rest, fallthrough)
            term = after
            for lit in reversed(it.elts):
                binds = []
                v = self.expr(lit, binds)
                body = self.block(s.body, "(NEXT)")
                term = f"let {s.target.id} := {v} in\n  " + body.replace("(NEXT)", "(" + term + ")")
            return term
        # L2: for i in range(hi, -1, -1): if c: return i
        if (
            isinstance(it, ast.Call)
            and ast.unparse(it.func) == "range"
            and len(it.args) == 3
            and ast.unparse(it.args[1]) == "-1"
            and ast.unparse(it.args[2]) == "-1"
            and len(s.body) == 1
            and isinstance(s.body[0], ast.If)
            and len(s.body[0].body) == 1
            and isinstance(s.body[0].body[0], ast.Return)
            and ast.unparse(s.body[0].body[0].value) == s.target.id
            and not s.body[0].orelse
        ):
            binds = []
            hi = self.expr(it.args[0], binds)
            b2 = []
            c = self.expr(s.body[0].test, b2)
            if b2:
                raise Unsupported("raising condition in search loop")
            i = s.target.id
            after = self.block(rest, fallthrough)
            return self.wrap(
                binds, f"match range_down_find (fun {i} => {c}) {hi} with Some {i} => {self.ret(i)} | None =>\n  {after} end"
            )
        # L4: adjacent pairs
        if (
            isinstance(it, ast.Call)
            and ast.unparse(it.func) == "range"
            and len(it.args) == 2
            and ast.unparse(it.args[0]) == "1"
            and isinstance(it.args[1], ast.Call)
            and ast.unparse(it.args[1].func) == "len"
            and isinstance(it.args[1].args[0], ast.Name)
        ):
            xs = it.args[1].args[0].id
            i = s.target.id
            body = [b for b in s.body if not self.skip(b)]
            if len(body) < 2:
                raise Unsupported("adjacent loop body")
            a, b = body[0], body[1]

            def elem(st, idx):
                if not (isinstance(st, ast.Assign) and isinstance(st.targets[0], ast.Name)):
                    raise Unsupported("adjacent loop binding")
                want = f"{xs}[{idx}].region"
                if ast.unparse(st.value) != want:
                    raise Unsupported("adjacent loop binding " + ast.unparse(st.value))
                return st.targets[0].id

            pa, pb = elem(a, f"{i} - 1"), elem(b, i)
            self.lists[pa] = "region"
            self.lists[pb] = "region"
            self.recparams[xs] = "region"
            inner = self.block(body[2:], "Ok tt")
            after = self.block(rest, fallthrough if fallthrough is not None else "Ok tt")
            return f"bind (adj_iter (fun {pa} {pb} =>\n  {inner}) {xs}) (fun _ =>\n  {after})"
        raise Unsupported("for shape: " + ast.unparse(s)[:80])

    # ---- whole function -----------------------------------------------------
    def translate(self):
        node = self.node
        pyparams = [a.arg for a in node.args.args]
        # object parameters: those whose attributes are read
        for p in pyparams:
            for n in ast.walk(node):
                if isinstance(n, ast.Attribute) and isinstance(n.value, ast.Name) and n.value.id == p:
                    self.objattrs.setdefault(p, [])
                if isinstance(n, ast.Call) and ast.unparse(n.func) in self.known:
                    k = self.known[ast.unparse(n.func)]
                    for a, (pn, pobj) in zip(n.args, k["pyparams"]):
                        if pobj is not None and isinstance(a, ast.Name) and a.id == p:
                            self.objattrs.setdefault(p, [])
        ft = "Ok tt" if self.raises and not any(isinstance(n, ast.Return) and n.value is not None for n in ast.walk(node)) else None
        body = self.block(node.body, ft)
        sig = []
        info = []
        for p in pyparams:
            if p in self.objattrs:
                cps = sorted(self.objattrs[p])
                for cp in cps:
                    sig.append(f"({cp} : Z)")
                info.append((p, cps))
            elif p in self.optional:
                sig.append(f"({p} : option Z)")
                info.append((p, None))
            elif p in self.recparams:
                sig.append(f"({p} : list {self.recparams[p]})")
                info.append((p, None))
            else:
                sig.append(f"({p} : Z)")
                info.append((p, None))
        text = f"Definition {node.name} {' '.join(sig)} :=\n  {body}.\n"
        return text, dict(raises=self.raises, pyparams=info)


def translate_unit(unit, out_dir):
    known = {}
    chunks = []
    trees = {}
    for mod, qual in UNITS[unit]:
        path = os.path.join(REPO, SRC[mod])
        if mod not in trees:
            trees[mod] = ast.parse(open(path).read())
        node = find(trees[mod], qual)
        fn = Fn(node, known)
        # attribute sets of object params must be stable: translate twice
        text, meta = fn.translate()
        fn2 = Fn(node, known)
        fn2.objattrs = {k: list(v) for k, v in fn.objattrs.items()}
        text, meta = fn2.translate()
        known[node.name] = meta
        chunks.append(f"(* {SRC[mod]} :: {qual} *)\n{text}")
    header = (
        f"(* GENERATED by translator/py2coq.py from {REPO} -- do not edit *)\n"
        "From Coq Require Import ZArith List Bool.\nFrom B2Z Require Import Base.Prims.\n"
        "Import ListNotations.\nOpen Scope Z_scope.\n\n"
    )
    return header + "\n".join(chunks)


def main():
    out_dir = sys.argv[1]
    units = sys.argv[2:] or list(UNITS)
    status = {}
    for unit in units:
        path = os.path.join(out_dir, unit + ".v")
        try:
            text = translate_unit(unit, out_dir)
            status[unit] = "ok"
        except Unsupported as u:
            text = f"(* TRANSLATION FAILED (fail-closed): {u} *)\n"
            status[unit] = "unsupported: " + str(u)
        except (SyntaxError, OSError) as u:
            text = f"(* TRANSLATION FAILED (fail-closed): {type(u).__name__} *)\n"
            status[unit] = "unsupported: " + type(u).__name__ + ": " + str(u)
        old = open(path).read() if os.path.exists(path) else None
        if old != text:
            open(path, "w").write(text)
    import json

    print(json.dumps(status))


if __name__ == "__main__":
    main()
