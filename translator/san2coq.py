#!/venv/bin/python
"""san2coq.py -- fail-closed translator for the value sanitisers of icf.py (the functions that write one
record's value into a row of the encode buffer: absent -> missing, short -> fill padding, htslib's integer
sentinels -> the VCF Zarr sentinels, NaN -> the missing NaN) and for the dispatch sanitiser_factory, to
Gallina (coq/Gen/GenSanitise.v).  Regenerated on every run; Bridge/BridgeSanitise.v proves the generated
definitions equal to the row encoder Pipeline/Rows.v (enc_vec), the function vec_roundtrip /
pipeline_refines_spec / spec_roundtrip (C01) are about.

A buffer row is a list of cells (1-d: width w) or a list of such rows (2-d: one per sample); floats are
their bit patterns.  `old` is what the row held before (stale data of the previous variant chunk).
Statement forms, read in program order:

  if value is None: <A> else: <B>
  buff[j] = C                                  the whole row becomes C               (row_full)
  buff[j, :value.shape[0]] = value             prefix of the row                     (row_set_prefix: numpy
  buff[j, :, :value.shape[1]] = value          prefix of every sample's row           raises if it is too long)
  value = sanitise_int_array(value, N, dtype)  the masked assignments of sanitise_int_array, in source order
  value = np.array(value, ndmin=N, dtype=buff.dtype, copy=True)        no change of the cells
  value[np.isnan(value)] = C                   NaN cells become C
  value = drop_empty_second_dim(value)         no change for a 1-d value
  x = value / x = [C] / x = <sanitise_int_array> / buff[j] = x[0]     scalars
  x = True / x = False / buff[j] = x          flags
constants.X are evaluated from constants.py (integer literals, np.iinfo(np.int32).min [+ k], the two float32
bit patterns).  Anything else is Unsupported: the unit is emitted as a comment and the bridge stops compiling.
"""
import ast
import json
import os
import sys

REPO = os.environ.get("VERIF_REPO", "/repo")


class Unsupported(Exception):
    pass


def src(n):
    return ast.unparse(n)


def strip(body):
    out = []
    for s in body:
        if isinstance(s, ast.Expr) and isinstance(s.value, ast.Constant) and isinstance(s.value.value, str):
            continue
        if isinstance(s, ast.Expr) and isinstance(s.value, ast.Call) and src(s.value.func).split(".")[0] in ("logger", "logging", "print"):
            continue
        out.append(s)
    return out


def zc(n):
    return f"({n})" if n < 0 else str(n)


def constants():
    tree = ast.parse(open(os.path.join(REPO, "bio2zarr/constants.py")).read())
    env = {}
    for st in tree.body:
        if isinstance(st, ast.Assign) and len(st.targets) == 1:
            t, v = st.targets[0], st.value
            if isinstance(t, ast.Name):
                s = src(v)
                if isinstance(v, ast.Constant) and isinstance(v.value, int):
                    env[t.id] = ("int", v.value)
                elif isinstance(v, ast.UnaryOp) and isinstance(v.op, ast.USub) and isinstance(v.operand, ast.Constant):
                    env[t.id] = ("int", -v.operand.value)
                elif s == "np.iinfo(np.int32).min":
                    env[t.id] = ("int", -(2**31))
                elif s.startswith("np.iinfo(np.int32).min + ") and s[len("np.iinfo(np.int32).min + "):].isdigit():
                    env[t.id] = ("int", -(2**31) + int(s[len("np.iinfo(np.int32).min + "):]))
                elif isinstance(v, ast.Constant) and isinstance(v.value, str):
                    env[t.id] = ("str", v.value)
            elif isinstance(t, ast.Tuple) and all(isinstance(e, ast.Name) for e in t.elts):
                # A, B = np.array([0x.., 0x..], dtype=np.int32).view(np.float32)   -> float bit patterns
                names = [e.id for e in t.elts]
                c = v
                if isinstance(c, ast.Call) and isinstance(c.func, ast.Attribute) and c.func.attr == "view" and src(c.args[0]) == "np.float32":
                    c = c.func.value
                    kind = "float"
                else:
                    kind = "intbits"
                if isinstance(c, ast.Call) and src(c.func) == "np.array" and isinstance(c.args[0], ast.List) and len(c.args[0].elts) == len(names) \
                        and all(isinstance(e, ast.Constant) and isinstance(e.value, int) for e in c.args[0].elts):
                    for nme, e in zip(names, c.args[0].elts):
                        env[nme] = (kind, e.value)
    return env


class San:
    def __init__(self, tree, consts):
        self.tree = tree
        self.consts = consts
        self.fns = {n.name: n for n in tree.body if isinstance(n, ast.FunctionDef)}

    def const(self, e, want):
        """a cell constant of kind want in {'int', 'float'} as a Coq Z"""
        if want != "str" and isinstance(e, ast.Attribute) and src(e.value) == "constants" and e.attr in self.consts:
            k, v = self.consts[e.attr]
            if (want, k) in (("int", "int"), ("float", "float")):
                return zc(v)
            raise Unsupported(f"constant {e.attr} of kind {k} used as {want}")
        if want == "str":
            v = None
            if isinstance(e, ast.Constant) and isinstance(e.value, str):
                v = e.value
            elif isinstance(e, ast.Attribute) and src(e.value) == "constants" and self.consts.get(e.attr, ("", None))[0] == "str":
                v = self.consts[e.attr][1]
            if v == ".":
                return "str_missing"
            if v == "":
                return "str_fill"
            raise Unsupported("string constant: " + src(e))
        if want == "int":
            if isinstance(e, ast.Constant) and isinstance(e.value, int) and not isinstance(e.value, bool):
                return zc(e.value)
            if isinstance(e, ast.UnaryOp) and isinstance(e.op, ast.USub) and isinstance(e.operand, ast.Constant) and isinstance(e.operand.value, int):
                return zc(-e.operand.value)
        raise Unsupported("constant: " + src(e))

    def int_conv(self):
        fn = self.fns.get("sanitise_int_array")
        if fn is None or [a.arg for a in fn.args.args] != ["value", "ndmin", "dtype"]:
            raise Unsupported("sanitise_int_array signature")
        lines = []
        seen_array = False
        for st in strip(fn.body):
            t = src(st)
            if isinstance(st, ast.If) and src(st.test) == "isinstance(value, tuple)":
                # tuple input: None -> the htslib missing sentinel
                b = strip(st.body)
                if len(b) == 1 and src(b[0]) == "value = [constants.VCF_INT_MISSING if x is None else x for x in value]":
                    continue
                raise Unsupported("tuple branch: " + t[:80])
            if t == "value = np.array(value, ndmin=ndmin, copy=True)":
                seen_array = True
                continue
            if isinstance(st, ast.Assign) and isinstance(st.targets[0], ast.Subscript) and src(st.targets[0].value) == "value":
                sl = st.targets[0].slice
                if isinstance(sl, ast.Compare) and src(sl.left) == "value" and len(sl.ops) == 1 and isinstance(sl.ops[0], ast.Eq):
                    k = self.const(sl.comparators[0], "int")
                    v = self.const(st.value, "int")
                    lines.append(f"let x := if x =? {k} then {v} else x in")
                    continue
            if t == "return value.astype(dtype)":
                continue
            raise Unsupported("sanitise_int_array: " + t[:80])
        if not seen_array:
            raise Unsupported("sanitise_int_array: no array conversion")
        return "Definition gen_int_conv (x : Z) : Z :=\n  " + "\n  ".join(lines) + "\n  x.\n"

    # ---- vector sanitisers ---------------------------------------------------------------
    def vector(self, name, kind, rank):
        fn = self.fns.get(name)
        if fn is None or [a.arg for a in fn.args.args] != ["buff", "j", "value"]:
            raise Unsupported(name + ": signature")
        body = strip(fn.body)
        if len(body) != 1 or not isinstance(body[0], ast.If) or src(body[0].test) != "value is None":
            raise Unsupported(name + ": not a single `if value is None`")
        full = "row_full w" if rank == 1 else "rows_full n w"
        setp = "row_set_prefix" if rank == 1 else "rows_set_prefix"
        # None branch
        nb = strip(body[0].body)
        if len(nb) != 1 or not (isinstance(nb[0], ast.Assign) and src(nb[0].targets[0]) == "buff[j]"):
            raise Unsupported(name + ": None branch")
        none_term = f"Ok ({full} {self.const(nb[0].value, kind)})"
        # value branch
        lines = []
        for st in strip(body[0].orelse):
            t = src(st)
            if kind == "str" and rank == 2 and isinstance(st, ast.If) and src(st.test) == "value.ndim == 2":
                a, b = [src(x) for x in strip(st.body)], [src(x) for x in strip(st.orelse)]
                if a == ["buff[j, :, :value.shape[1]] = value"] and b == ["for k, val in enumerate(value):\n    buff[j, k, :len(val)] = val"]:
                    # rectangular or ragged: every sample's row gets its own values as a prefix
                    lines.append(f"let row := bind row (fun r => {setp} r v) in")
                    continue
                raise Unsupported(name + ": ndim branches: " + " | ".join(a + b)[:120])
            if not isinstance(st, ast.Assign) or len(st.targets) != 1:
                raise Unsupported(name + ": " + t[:80])
            tg, v = st.targets[0], st.value
            if src(tg) == "value":
                if kind == "int" and t == f"value = sanitise_int_array(value, {rank}, buff.dtype)":
                    lines.append("let v := " + ("map gen_int_conv v" if rank == 1 else "map (map gen_int_conv) v") + " in")
                    continue
                if kind == "float" and t == f"value = np.array(value, ndmin={rank}, dtype=buff.dtype, copy=True)":
                    continue
                if t == "value = drop_empty_second_dim(value)" and rank == 1:
                    continue
                raise Unsupported(name + ": " + t[:80])
            if src(tg) == "value[np.isnan(value)]" and kind == "float":
                c = self.const(v, "float")
                f = f"(fun b => if is_nan b then {c} else b)"
                lines.append("let v := " + (f"map {f} v" if rank == 1 else f"map (map {f}) v") + " in")
                continue
            if src(tg) == "buff[j]":
                lines.append(f"let row := Ok ({full} {self.const(v, kind)}) in")
                continue
            if kind == "str" and rank == 2 and False:
                pass
            if (rank == 1 and src(tg) == "buff[j, :value.shape[0]]" or rank == 2 and src(tg) == "buff[j, :, :value.shape[1]]") and src(v) == "value":
                lines.append(f"let row := bind row (fun r => {setp} r v) in")
                continue
            raise Unsupported(name + ": " + t[:80])
        ty = "list Z" if rank == 1 else "list (list Z)"
        params = "(w : nat)" if rank == 1 else "(n w : nat)"
        return (f"Definition gen_{name[len('sanitise_value_'):]} {params} (old : {ty}) (value : option ({ty})) : res ({ty}) :=\n"
                f"  match value with\n  | None => {none_term}\n  | Some v =>\n      let row := Ok old in\n      "
                + "\n      ".join(lines) + "\n      row\n  end.\n")

    def scalar(self, name, kind):
        fn = self.fns.get(name)
        if fn is None or [a.arg for a in fn.args.args] != ["buff", "j", "value"]:
            raise Unsupported(name + ": signature")
        b = [src(s) for s in strip(fn.body)]
        if kind == "float":
            want = ["x = value", "if value is None:\n    x = [constants.FLOAT32_MISSING]", "buff[j] = x[0]"]
            if b != want:
                raise Unsupported(name + ": " + " | ".join(b)[:120])
            c = self.const(ast.parse("constants.FLOAT32_MISSING").body[0].value, "float")
            return f"Definition gen_float_scalar (value : option (list Z)) : res Z :=\n  let x := match value with None => [{c}] | Some v => v end in\n  py_index0 x.\n"
        want = ["x = value", "if value is None:\n    x = [constants.INT_MISSING]\nelse:\n    x = sanitise_int_array(value, ndmin=1, dtype=np.int32)", "buff[j] = x[0]"]
        if b != want:
            raise Unsupported(name + ": " + " | ".join(b)[:120])
        c = self.const(ast.parse("constants.INT_MISSING").body[0].value, "int")
        return f"Definition gen_int_scalar (value : option (list Z)) : res Z :=\n  let x := match value with None => [{c}] | Some v => map gen_int_conv v end in\n  py_index0 x.\n"

    def string_scalar(self):
        fn = self.fns.get("sanitise_value_string_scalar")
        b = [src(x) for x in strip(fn.body)] if fn else []
        if len(b) != 1 or not isinstance(strip(fn.body)[0], ast.If) or src(strip(fn.body)[0].test) != "value is None":
            raise Unsupported("sanitise_value_string_scalar shape")
        st = strip(fn.body)[0]
        nb, eb = strip(st.body), strip(st.orelse)
        if len(nb) != 1 or src(nb[0].targets[0]) != "buff[j]" or [src(x) for x in eb] != ["buff[j] = value[0]"]:
            raise Unsupported("sanitise_value_string_scalar: " + " | ".join(b)[:120])
        c = self.const(nb[0].value, "str")
        return f"Definition gen_string_scalar (value : option (list Z)) : res Z :=\n  match value with None => Ok {c} | Some v => py_index0 v end.\n"

    def flag(self):
        fn = self.fns.get("sanitise_value_bool")
        b = [src(s) for s in strip(fn.body)] if fn else []
        forms = (["x = True", "if value is None:\n    x = False", "buff[j] = x"], ["buff[j] = value is not None"],
                 ["if value is None:\n    buff[j] = False\nelse:\n    buff[j] = True"])
        if b not in forms:
            raise Unsupported("sanitise_value_bool: " + " | ".join(b)[:120])
        return "Definition gen_bool (value : option (list Z)) : bool := match value with None => false | Some _ => true end.\n"

    def dispatch(self):
        cls = next((n for n in self.tree.body if isinstance(n, ast.ClassDef) and n.name == "IntermediateColumnarFormatField"), None)
        fn = next((n for n in cls.body if isinstance(n, ast.FunctionDef) and n.name == "sanitiser_factory"), None) if cls else None
        if fn is None or [a.arg for a in fn.args.args] != ["self", "shape"]:
            raise Unsupported("sanitiser_factory signature")
        rows = []

        def ranks(stmts, ty):
            only = None
            for st in strip(stmts):
                if isinstance(st, ast.Assert):
                    t = src(st.test)
                    if t.startswith("len(shape) == ") and t[len("len(shape) == "):].isdigit():
                        only = t[len("len(shape) == "):]
                    continue
                if isinstance(st, ast.Return):
                    rows.append((ty, only or "any", src(st.value)))
                    continue
                if isinstance(st, ast.If):
                    cur = st
                    while True:
                        t = src(cur.test)
                        if not (t.startswith("len(shape) == ") and t[len("len(shape) == "):].isdigit()):
                            raise Unsupported("rank test: " + t)
                        b = strip(cur.body)
                        if len(b) != 1 or not isinstance(b[0], ast.Return):
                            raise Unsupported("rank branch")
                        rows.append((ty, t[len("len(shape) == "):], src(b[0].value)))
                        if len(cur.orelse) == 1 and isinstance(cur.orelse[0], ast.If):
                            cur = cur.orelse[0]
                            continue
                        e = strip(cur.orelse)
                        if len(e) != 1 or not isinstance(e[0], ast.Return):
                            raise Unsupported("rank else")
                        rows.append((ty, "3", src(e[0].value)))
                        break
                    continue
                raise Unsupported("sanitiser_factory: " + src(st)[:80])

        body = strip(fn.body)
        body = [s for s in body if not isinstance(s, ast.Assert)]
        if len(body) != 1 or not isinstance(body[0], ast.If):
            raise Unsupported("sanitiser_factory: shape")
        cur = body[0]
        while True:
            t = src(cur.test)
            pre = "self.vcf_field.vcf_type == "
            if not t.startswith(pre):
                raise Unsupported("type test: " + t)
            ranks(cur.body, ast.literal_eval(t[len(pre):]))
            if len(cur.orelse) == 1 and isinstance(cur.orelse[0], ast.If):
                cur = cur.orelse[0]
                continue
            ranks(cur.orelse, "String|Character")
            break
        TY = {"Flag": "TFlag", "Float": "TFloat", "Integer": "TInteger", "String|Character": "TString"}
        out = []
        for ty, rk, f in rows:
            if not f.startswith("sanitise_value_"):
                raise Unsupported("dispatch target: " + f)
            rks = ["1", "2", "3"] if rk == "any" else [rk]
            for k in rks:
                out.append(f"  | {TY[ty]}, {k}%nat => Some S_{f[len('sanitise_value_'):]}")
        return ("Definition gen_dispatch (ty : vcf_type) (rank : nat) : option sanitiser :=\n  match ty, rank with\n" + "\n".join(out)
                + "\n  | _, _ => None\n  end.\n")


def translate():
    tree = ast.parse(open(os.path.join(REPO, "bio2zarr/vcf2zarr/icf.py")).read())
    s = San(tree, constants())
    c = s.consts
    need = ["INT_MISSING", "INT_FILL", "VCF_INT_MISSING", "VCF_INT_FILL", "FLOAT32_MISSING", "FLOAT32_FILL"]
    for k in need:
        if k not in c:
            raise Unsupported("constant not understood: " + k)
    parts = ["\n".join(f"Definition c_{k} : Z := {zc(c[k][1])}." for k in need) + "\n",
             s.int_conv(),
             s.vector("sanitise_value_int_1d", "int", 1), s.vector("sanitise_value_int_2d", "int", 2),
             s.vector("sanitise_value_float_1d", "float", 1), s.vector("sanitise_value_float_2d", "float", 2),
             s.vector("sanitise_value_string_1d", "str", 1), s.vector("sanitise_value_string_2d", "str", 2), s.string_scalar(),
             s.scalar("sanitise_value_int_scalar", "int"), s.scalar("sanitise_value_float_scalar", "float"), s.flag(), s.dispatch()]
    return (f"(* GENERATED by translator/san2coq.py from {REPO}/bio2zarr/vcf2zarr/icf.py + constants.py: the value sanitisers *)\n"
            "From Coq Require Import ZArith List Bool.\nFrom B2Z Require Import Base.Prims Base.SanPrims.\nImport ListNotations.\nOpen Scope Z_scope.\n\n"
            + "\n".join(parts))


def main():
    out_dir = sys.argv[1]
    path = os.path.join(out_dir, "GenSanitise.v")
    try:
        text = translate()
        status = "ok"
    except Unsupported as u:
        text = f"(* TRANSLATION FAILED (fail-closed): {u} *)\n"
        status = "unsupported: " + str(u)
    except (SyntaxError, OSError, ValueError) as u:
        text = f"(* TRANSLATION FAILED (fail-closed): {type(u).__name__} *)\n"
        status = "unsupported: " + type(u).__name__ + ": " + str(u)
    old = open(path).read() if os.path.exists(path) else None
    if old != text:
        open(path, "w").write(text)
    print(json.dumps({"GenSanitise": status}))


if __name__ == "__main__":
    main()
