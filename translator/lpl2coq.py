#!/venv/bin/python
"""lpl2coq.py -- fail-closed translator for the scalar skeleton of compute_lpl_field (icf.py; C17): the padding of the local
alleles with the reference allele, the treatment of negative (missing / end-of-vector) LAA entries read from the input, and
the two dispatches on the record's ploidy -- the number of local genotypes when the record has no PL, and the a / b index
construction -- each of which must reject every ploidy other than 1 and 2 with ValueError.  The vectorised index arithmetic
itself (np.repeat / np.tile / np.tril_indices_from, the gather from PL) is modelled by hand in Model/LocalAlleles.v and tied by
the differential run.  Output: coq/Gen/GenLpl.v; Props/C17.v proves the statements by evaluation / case analysis.
Anything else is Unsupported: the unit is emitted as a comment and Props/C17.v stops compiling.
"""
import ast
import json
import os
import sys

REPO = os.environ.get("VERIF_REPO", "/repo")


class Unsupported(Exception):
    pass


def src(n):
    return ast.unparse(n)


def strip(body):
    out = []
    for s in body:
        if isinstance(s, ast.Expr) and isinstance(s.value, ast.Constant) and isinstance(s.value.value, str):
            continue
        if isinstance(s, ast.Expr) and isinstance(s.value, ast.Call) and src(s.value.func).split(".")[0] in ("logger", "logging", "print"):
            continue
        out.append(s)
    return out


def is_guard(st, var):
    """if ploidy not in (1, 2): raise ValueError(...)"""
    return isinstance(st, ast.If) and not st.orelse and src(st.test) in (f"{var} not in (1, 2)", f"{var} not in [1, 2]", f"{var} not in {{1, 2}}") \
        and len(strip(st.body)) == 1 and isinstance(strip(st.body)[0], ast.Raise) and src(strip(st.body)[0].exc).startswith("ValueError(")


def chain(st, var, guarded=False):
    """if ploidy == 1: A elif ploidy == 2: B else: raise ValueError -> [(1, A), (2, B)], raises
    (or, after the guard clause `if ploidy not in (1, 2): raise ValueError`:  if ploidy == 1: A else: B)"""
    if guarded and src(st.test) == f"{var} == 1" and st.orelse and not (len(st.orelse) == 1 and isinstance(st.orelse[0], ast.If)):
        return [(1, strip(st.body)), (2, strip(st.orelse))], True
    arms = []
    cur = st
    while True:
        t = src(cur.test)
        if not (t.startswith(f"{var} == ") and t[len(var) + 4:].isdigit()):
            raise Unsupported("ploidy test: " + t)
        arms.append((int(t[len(var) + 4:]), strip(cur.body)))
        if len(cur.orelse) == 1 and isinstance(cur.orelse[0], ast.If):
            cur = cur.orelse[0]
            continue
        e = strip(cur.orelse)
        raises = len(e) == 1 and isinstance(e[0], ast.Raise) and src(e[0].exc).startswith("ValueError(")
        return arms, raises


def translate():
    tree = ast.parse(open(os.path.join(REPO, "bio2zarr/vcf2zarr/icf.py")).read())
    fn = next((n for n in tree.body if isinstance(n, ast.FunctionDef) and n.name == "compute_lpl_field"), None)
    if fn is None or [a.arg for a in fn.args.args] != ["variant", "laa_val"]:
        raise Unsupported("compute_lpl_field signature")
    body = strip(fn.body)
    t = [src(x) for x in body]
    head = ["assert laa_val is not None", "la_val = np.zeros((laa_val.shape[0], laa_val.shape[1] + 1), dtype=laa_val.dtype)", "la_val[:, 1:] = laa_val",
            "la_val[la_val < 0] = constants.INT_FILL", "ploidy = variant.ploidy"]
    if t[:5] != head:
        bad = next((a for a, b in zip(t + [""], head) if a != b), "")
        raise Unsupported("prelude: " + bad[:120])
    nopl = body[5]
    if not (isinstance(nopl, ast.If) and src(nopl.test) == "'PL' not in variant.FORMAT" and not nopl.orelse):
        raise Unsupported("the record-without-PL branch: " + t[5][:100])
    nb = strip(nopl.body)
    g1 = any(is_guard(x, "ploidy") for x in nb)
    d1 = next((x for x in nb if isinstance(x, ast.If) and not is_guard(x, "ploidy")), None)
    if d1 is None or src(nb[-1]) != "return np.full((sample_count, local_genotype_count), constants.INT_MISSING)" \
            or "local_allele_count = la_val.shape[1]" not in [src(x) for x in nb]:
        raise Unsupported("the record-without-PL branch: body")
    arms1, raises1 = chain(d1, "ploidy", g1)
    counts = {}
    for k, b in arms1:
        if len(b) != 1 or not src(b[0]).startswith("local_genotype_count = "):
            raise Unsupported("local genotype count: " + " | ".join(src(x) for x in b)[:120])
        e = src(b[0].value)
        if e == "local_allele_count":
            counts[k] = "n"
        elif e == "local_allele_count * (local_allele_count + 1) // 2":
            counts[k] = "(n * (n + 1)) / 2"
        else:
            raise Unsupported("local genotype count: " + e)
    g2 = any(is_guard(x, "ploidy") for x in body[6:])
    d2 = next((x for x in body[6:] if isinstance(x, ast.If) and src(x.test).startswith("ploidy == ")), None)
    if d2 is None:
        raise Unsupported("the a / b dispatch")
    arms2, raises2 = chain(d2, "ploidy", g2)
    out = (f"(* GENERATED by translator/lpl2coq.py from {REPO}/bio2zarr/vcf2zarr/icf.py: the scalar skeleton of compute_lpl_field *)\n"
           "From Coq Require Import ZArith List Bool.\nFrom B2Z Require Import Base.Prims.\nImport ListNotations.\nOpen Scope Z_scope.\n\n"
           "(* la_val = [0] ++ laa_val per sample, negative entries (htslib's missing / end-of-vector sentinels) -> INT_FILL *)\n"
           "Definition gen_la_row (laa : list Z) : list Z := map (fun x => if x <? 0 then -2 else x) (0 :: laa).\n\n"
           "(* the record has no PL: the number of local genotypes for n local alleles *)\n"
           "Definition gen_local_genotype_count (ploidy n : Z) : res Z :=\n")
    for k in sorted(counts):
        out += f"  if ploidy =? {k} then Ok ({counts[k]}) else\n"
    out += "  " + ("Err E_ValueError" if raises1 else "Ok 0") + ".\n\n"
    out += "(* the ploidies the a / b index construction accepts *)\nDefinition gen_index_ploidy_ok (ploidy : Z) : res unit :=\n"
    for k, _ in arms2:
        out += f"  if ploidy =? {k} then Ok tt else\n"
    out += "  " + ("Err E_ValueError" if raises2 else "Ok tt") + ".\n"
    return out


def main():
    out_dir = sys.argv[1]
    path = os.path.join(out_dir, "GenLpl.v")
    try:
        text = translate()
        status = "ok"
    except Unsupported as u:
        text = f"(* TRANSLATION FAILED (fail-closed): {u} *)\n"
        status = "unsupported: " + str(u)
    except (SyntaxError, OSError) as u:
        text = f"(* TRANSLATION FAILED (fail-closed): {type(u).__name__} *)\n"
        status = "unsupported: " + type(u).__name__ + ": " + str(u)
    old = open(path).read() if os.path.exists(path) else None
    if old != text:
        open(path, "w").write(text)
    print(json.dumps({"GenLpl": status}))


if __name__ == "__main__":
    main()
