#!/venv/bin/python
"""idx2coq.py -- fail-closed translator for the FIELD LAYOUT and the RECORD-COUNT RULE of vcf_utils.read_csi / read_tabix
(C09).  Output: coq/Gen/GenIndexLayout.v, regenerated on every run.  Props/C09.v proves (by evaluation / case analysis) that
the sequence of struct reads of each reader -- magic, header fields, per reference sequence the bin count, per bin its id /
loffset / chunk count, per chunk two 64-bit offsets, (tabix) the linear index, the optional trailing n_no_coor, end of data --
is the layout of the CSI / tabix specification that Model/IndexParse.v parses and its independent serialisers write, with the
signedness the model uses, and that the running update of a sequence's record count is the model's count_step.

The readers' statements are walked in program order:
  X = read_bytes_as_value(f, "<fmt>"[, nodata])      one field          -> Rd [<field>]   ("<Q" with nodata 0 -> Tail)
  A, B, .. = read_bytes_as_tuple(f, "<fmt>")          several fields     -> Rd [<fields>]
  Cls(*read_bytes_as_tuple(f, "<fmt>"))               the same, into a dataclass
  for _ in range(<count variable>): ...               -> Loop "<count variable>" [...]
  if <count> > 0: ...  (n_ref / l_nm guards)           -> Guard "<variable>" [...]
  assert len(f.read(1)) == 0                          -> Eof
and the record-count statements are collected: `record_count = 0 if n_bin == 0 else RECORD_COUNT_UNKNOWN`,
`if bin == <pseudo bin>: assert len(chunks) == 2; n_mapped, n_unmapped = chunks[1].cnk_beg, chunks[1].cnk_end;
record_count = n_mapped + n_unmapped`.  Anything else that touches the stream `f` is Unsupported.
"""
import ast
import json
import os
import sys

REPO = os.environ.get("VERIF_REPO", "/repo")


class Unsupported(Exception):
    pass


def src(n):
    return ast.unparse(n)


def strip(body):
    out = []
    for s in body:
        if isinstance(s, ast.Expr) and isinstance(s.value, ast.Constant) and isinstance(s.value.value, str):
            continue
        if isinstance(s, ast.Expr) and isinstance(s.value, ast.Call) and src(s.value.func).split(".")[0] in ("logger", "logging", "print"):
            continue
        out.append(s)
    return out


FLD = {"i": "I32", "I": "U32", "Q": "U64", "q": "I64"}


def fields(fmt_node):
    """a struct format -> list of field symbols"""
    if isinstance(fmt_node, ast.JoinedStr):
        t = src(fmt_node)
        if t in ("f'{l_aux}s'", "f'<{header.l_nm}s'", "f'{header.l_nm}s'"):
            return ["BytesN"]
        raise Unsupported("format: " + t)
    if not (isinstance(fmt_node, ast.Constant) and isinstance(fmt_node.value, str)):
        raise Unsupported("format: " + src(fmt_node))
    f = fmt_node.value
    if f == "4s":
        return ["Bytes4"]
    if not f.startswith("<"):
        raise Unsupported("byte order of " + f)
    out = []
    num = ""
    for ch in f[1:]:
        if ch.isdigit():
            num += ch
            continue
        if ch not in FLD:
            raise Unsupported("format character " + ch)
        out += [FLD[ch]] * (int(num) if num else 1)
        num = ""
    return out


def stream_call(e):
    """read_bytes_as_value / read_bytes_as_tuple on f -> (kind, format node, nodata node)"""
    if isinstance(e, ast.Starred):
        e = e.value
    if isinstance(e, ast.Call) and src(e.func) in ("read_bytes_as_value", "read_bytes_as_tuple") and e.args and src(e.args[0]) == "f":
        nod = e.args[2] if len(e.args) > 2 else None
        return src(e.func), e.args[1], nod
    return None


class R:
    """walks a reader; every field read gets the next canonical name c0, c1, ...; local variables (and the attributes of a
    dataclass built from a tuple read) are resolved to the canonical name of the field they hold"""

    def __init__(self, tree, pseudo_values):
        self.tree = tree
        self.pseudo = pseudo_values      # acceptable spellings of the pseudo-bin in `if bin == ...`
        self.count_init = None
        self.count_rule = None
        self.n = 0
        self.var = {}                    # local name / "obj.attr" -> canonical field name
        self.dataclasses = {c.name: [x.target.id for x in c.body if isinstance(x, ast.AnnAssign)] for c in tree.body if isinstance(c, ast.ClassDef)}
        self.helpers = {f.name: f for f in tree.body if isinstance(f, ast.FunctionDef)}

    def fresh(self, k):
        out = [f"c{self.n + i}" for i in range(k)]
        self.n += k
        return out

    def canon(self, e):
        t = src(e)
        if t in self.var:
            return self.var[t]
        raise Unsupported("count / guard on something that was not read from the index: " + t)

    def walk(self, stmts):
        out = []
        for st in strip(stmts):
            t = src(st)
            calls = [c for c in ast.walk(st) if isinstance(c, ast.Call) and (src(c.func) in ("read_bytes_as_value", "read_bytes_as_tuple", "f.read")
                                                                         or (c.args and src(c.args[0]) == "f" and src(c.func) in self.helpers))]
            if isinstance(st, ast.Assign):
                v = st.value
                sc = stream_call(v)
                cls = None
                if sc is None and isinstance(v, ast.Call) and len(v.args) == 1 and stream_call(v.args[0]) and not v.keywords:
                    sc = stream_call(v.args[0])          # Cls(*read_bytes_as_tuple(...))
                    cls = src(v.func)
                if sc:
                    kind, fmt, nod = sc
                    fl = fields(fmt)
                    names = self.fresh(len(fl))
                    tg = st.targets[0]
                    if isinstance(tg, ast.Tuple) and len(tg.elts) == len(names):
                        for x, nm in zip(tg.elts, names):
                            self.var[src(x)] = nm
                    elif isinstance(tg, ast.Name):
                        if cls in self.dataclasses and len(self.dataclasses[cls]) == len(names):
                            for a, nm in zip(self.dataclasses[cls], names):
                                self.var[f"{tg.id}.{a}"] = nm
                        elif len(names) == 1:
                            self.var[tg.id] = names[0]
                    if kind == "read_bytes_as_value" and nod is not None and src(nod) == "0" and fl == ["U64"]:
                        out.append("Tail")
                    else:
                        out.append("Rd [" + "; ".join(fl) + "]")
                    continue
                if isinstance(v, ast.Call) and src(v.func) in self.helpers and v.args and src(v.args[0]) == "f" and not v.keywords:
                    # a module-level helper reading from the same stream: walked in place, its parameters bound to the arguments
                    h = self.helpers[src(v.func)]
                    ps = [a.arg for a in h.args.args]
                    if len(ps) != len(v.args) or ps[0] != "f":
                        raise Unsupported("helper call: " + t[:80])
                    saved = dict(self.var)
                    for p_, a_ in zip(ps[1:], v.args[1:]):
                        self.var[p_] = self.canon(a_)
                    out += self.walk(h.body)
                    self.var = saved
                    continue
                if t == "record_count = 0 if n_bin == 0 else RECORD_COUNT_UNKNOWN" or (t.startswith("record_count = 0 if ") and t.endswith(" == 0 else RECORD_COUNT_UNKNOWN")
                                                                                      and t[len("record_count = 0 if "):-len(" == 0 else RECORD_COUNT_UNKNOWN")] in self.var):
                    self.count_init = True
                    continue
                if not calls:
                    continue      # bookkeeping: lists, names, pseudo_bin
                raise Unsupported("stream read in an unrecognised assignment: " + t[:100])
            if isinstance(st, ast.For) and isinstance(st.iter, ast.Call) and src(st.iter.func) == "range" and len(st.iter.args) == 1:
                out.append(f'Loop "{self.canon(st.iter.args[0])}" [' + "; ".join(self.walk(st.body)) + "]")
                continue
            if isinstance(st, ast.If):
                tt = src(st.test)
                if tt.startswith("bin == ") and tt[len("bin == "):] in self.pseudo and not st.orelse:
                    b = [src(x) for x in strip(st.body)]
                    if b != ["assert len(chunks) == 2", "n_mapped, n_unmapped = (chunks[1].cnk_beg, chunks[1].cnk_end)", "record_count = n_mapped + n_unmapped"]:
                        raise Unsupported("pseudo-bin rule: " + " | ".join(b)[:200])
                    self.count_rule = True
                    continue
                if tt.endswith(" > 0") and tt[:-4] in self.var and not st.orelse:
                    out.append(f'Guard "{self.var[tt[:-4]]}" [' + "; ".join(self.walk(st.body)) + "]")
                    continue
                if tt in ("magic != b'CSI\\x01'", "magic != b'TBI\\x01'") and not st.orelse and len(strip(st.body)) == 1 and isinstance(strip(st.body)[0], ast.Raise):
                    out.append('Magic "' + ("CSI" if "CSI" in tt else "TBI") + '"')
                    continue
                if not calls:
                    continue
                raise Unsupported("stream read under an unrecognised condition: " + t[:100])
            if isinstance(st, ast.Assert) and t == "assert len(f.read(1)) == 0":
                out.append("Eof")
                continue
            if isinstance(st, ast.Return):
                continue
            if isinstance(st, ast.Expr) and not calls:
                continue          # appends
            if calls:
                raise Unsupported("stream read in an unrecognised statement: " + t[:100])
        return out


def reader(tree, name, pseudo):
    fn = next((n for n in tree.body if isinstance(n, ast.FunctionDef) and n.name == name), None)
    if fn is None:
        raise Unsupported("not found: " + name)
    w = next((x for x in strip(fn.body) if isinstance(x, ast.With)), None)
    if w is None or src(w.items[0].context_expr) != "gzip.open(file)" or src(w.items[0].optional_vars) != "f":
        raise Unsupported(name + ": the index is not read through gzip.open(file) as f")
    r = R(tree, pseudo)
    lay = r.walk(w.body)
    if not (r.count_init and r.count_rule):
        raise Unsupported(name + ": record-count rule not found")
    return lay


def main():
    out_dir = sys.argv[1]
    path = os.path.join(out_dir, "GenIndexLayout.v")
    try:
        tree = ast.parse(open(os.path.join(REPO, "bio2zarr/vcf_utils.py")).read())
        consts = {src(st.targets[0]) for st in tree.body if isinstance(st, ast.Assign) and isinstance(st.value, ast.Constant) and st.value.value == 37450}
        csi = reader(tree, "read_csi", {"pseudo_bin"})
        tbi = reader(tree, "read_tabix", {"37450"} | consts)
        txt = src(next(n for n in tree.body if isinstance(n, ast.FunctionDef) and n.name == "read_csi"))
        if "pseudo_bin = bin_limit(min_shift, depth) + 1" not in txt:
            raise Unsupported("read_csi: pseudo_bin")
        unknown = next((src(st.value) for st in tree.body if isinstance(st, ast.Assign) and src(st.targets[0]) == "RECORD_COUNT_UNKNOWN"), None)
        if unknown is None:
            raise Unsupported("RECORD_COUNT_UNKNOWN")
        text = (f"(* GENERATED by translator/idx2coq.py from {REPO}/bio2zarr/vcf_utils.py: the field layout and the record-count rule of read_csi / read_tabix *)\n"
                "From Coq Require Import ZArith String List.\nImport ListNotations.\nOpen Scope string_scope.\n\n"
                "Inductive fld := I32 | U32 | U64 | I64 | Bytes4 | BytesN.\n"
                "Inductive rd := Magic (m : string) | Rd (f : list fld) | Loop (count : string) (body : list rd) | Guard (var : string) (body : list rd) | Tail | Eof.\n\n"
                "Definition gen_csi_layout : list rd :=\n  [ " + ";\n    ".join(csi) + " ].\n\n"
                "Definition gen_tbi_layout : list rd :=\n  [ " + ";\n    ".join(tbi) + " ].\n\n"
                "(* the pseudo-bin: CSI bin_limit(min_shift, depth) + 1; tabix the constant below *)\nDefinition gen_tbi_pseudo_bin : Z := 37450%Z.\n"
                "(* record_count = 0 if n_bin == 0 else UNKNOWN; a pseudo-bin sets it to n_mapped + n_unmapped of its SECOND chunk (asserting two chunks) *)\n"
                "Definition gen_count_rule_present : bool := true.\n")
        status = "ok"
    except Unsupported as u:
        text = f"(* TRANSLATION FAILED (fail-closed): {u} *)\n"
        status = "unsupported: " + str(u)
    except (SyntaxError, OSError, StopIteration) as u:
        text = f"(* TRANSLATION FAILED (fail-closed): {type(u).__name__} *)\n"
        status = "unsupported: " + type(u).__name__ + ": " + str(u)
    old = open(path).read() if os.path.exists(path) else None
    if old != text:
        open(path, "w").write(text)
    print(json.dumps({"GenIndexLayout": status}))


if __name__ == "__main__":
    main()
