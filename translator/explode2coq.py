#!/venv/bin/python
"""explode2coq.py -- fail-closed translator for the record loop of IntermediateColumnarFormatWriter.process_partition and
for fixed_vcf_field_definitions (icf.py; C01 "every record and every field", C08): which value of a record is appended
to which column of the intermediate store, and how often.  Output: coq/Gen/GenExplode.v, regenerated on every run;
Bridge/BridgeExplode.v proves by evaluation that every fixed field that is defined gets exactly one append per record, from the
record attribute of the same name (rlen = end - start), that every INFO field, every FORMAT field and -- when present -- GT get
exactly one append per record (an absent INFO key as None, a record without GT as None), that LAA is handled before LPL,
and that the records are those of ivcf.variants(partition.region), each counted once.

Read off the source: the `for variant in ivcf.variants(partition.region):` loop inside the two with-blocks; in its body
  num_records += 1 ; last_position = variant.POS
  tcw.append("<FIELD>", <expression over variant>)                               fixed fields
  for field in info_fields: tcw.append(field.full_name, variant.INFO.get(field.name, None))
  if has_gt: <val = None if "GT" not in variant.FORMAT or variant.genotype is None else variant.genotype.array()> ; tcw.append("FORMAT/GT", val)
  for field in format_fields: <LAA / LPL / other> ; tcw.append(field.full_name, val)
  core.update_progress(1)
Anything else is Unsupported: the unit is emitted as a comment and the bridge stops compiling.
"""
import ast
import json
import os
import sys

REPO = os.environ.get("VERIF_REPO", "/repo")


class Unsupported(Exception):
    pass


def src(n):
    return ast.unparse(n)


def strip(body):
    out = []
    for s in body:
        if isinstance(s, ast.Expr) and isinstance(s.value, ast.Constant) and isinstance(s.value.value, str):
            continue
        if isinstance(s, ast.Expr) and isinstance(s.value, ast.Call) and src(s.value.func).split(".")[0] in ("logger", "logging", "print"):
            continue
        out.append(s)
    return out


def q(s):
    return '"' + s + '"'


def fixed_defs(tree):
    fn = next((n for n in tree.body if isinstance(n, ast.FunctionDef) and n.name == "fixed_vcf_field_definitions"), None)
    if fn is None:
        raise Unsupported("fixed_vcf_field_definitions not found")
    out = []
    for c in ast.walk(fn):
        if isinstance(c, ast.Call) and src(c.func) == "make_field_def":
            if len(c.args) != 3 or not all(isinstance(a, ast.Constant) and isinstance(a.value, str) for a in c.args):
                raise Unsupported("make_field_def call: " + src(c))
            out.append(tuple(a.value for a in c.args))
    if not out:
        raise Unsupported("no fixed field definitions")
    return out


def record_loop(tree):
    cls = next((n for n in tree.body if isinstance(n, ast.ClassDef) and n.name == "IntermediateColumnarFormatWriter"), None)
    fn = next((n for n in cls.body if isinstance(n, ast.FunctionDef) and n.name == "process_partition"), None) if cls else None
    if fn is None:
        raise Unsupported("process_partition not found")
    loops = [n for n in ast.walk(fn) if isinstance(n, ast.For) and src(n.iter) == "ivcf.variants(partition.region)"]
    if len(loops) != 1 or not isinstance(loops[0].target, ast.Name):
        raise Unsupported("record loop: expected exactly one `for variant in ivcf.variants(partition.region)`")
    lp = loops[0]
    v = lp.target.id
    fixed, ops = [], []
    counted = False
    for st in strip(lp.body):
        t = src(st)
        if t == "num_records += 1":
            if counted:
                raise Unsupported("records counted twice")
            counted = True
            continue
        if t in (f"last_position = {v}.POS", "core.update_progress(1)", "laa_val = None"):
            continue
        if isinstance(st, ast.Expr) and isinstance(st.value, ast.Call) and src(st.value.func) == "tcw.append" and len(st.value.args) == 2 \
                and isinstance(st.value.args[0], ast.Constant):
            fixed.append((st.value.args[0].value, src(st.value.args[1]).replace(v + ".", "")))
            ops.append("AFixed " + q(st.value.args[0].value))
            continue
        if isinstance(st, ast.For) and src(st.iter) == "info_fields":
            f = st.target.id
            b = [src(x) for x in strip(st.body)]
            if b != [f"tcw.append({f}.full_name, {v}.INFO.get({f}.name, None))"]:
                raise Unsupported("INFO loop: " + " | ".join(b)[:160])
            ops.append("AInfoEach")
            continue
        if isinstance(st, ast.If) and src(st.test) == "has_gt" and not st.orelse:
            b = [src(x) for x in strip(st.body)]
            want = [f"if 'GT' not in {v}.FORMAT or {v}.genotype is None:\n    val = None\nelse:\n    val = {v}.genotype.array()", "tcw.append('FORMAT/GT', val)"]
            if b != want:
                raise Unsupported("GT block: " + " | ".join(b)[:200])
            ops.append("AGtIfPresent")
            continue
        if isinstance(st, ast.For) and src(st.iter) == "format_fields":
            f = st.target.id
            b = strip(st.body)
            if len(b) != 2 or src(b[1]) != f"tcw.append({f}.full_name, val)" or not isinstance(b[0], ast.If):
                raise Unsupported("FORMAT loop: " + " | ".join(src(x) for x in b)[:200])
            chain = b[0]
            want_laa = f"if 'LAA' not in {v}.FORMAT:\n    laa_val = compute_laa_field({v})\nelse:\n    laa_val = {v}.format('LAA')"
            if src(chain.test) != f"{f}.name == 'LAA'" or [src(x) for x in strip(chain.body)] != [want_laa, "val = laa_val"]:
                raise Unsupported("FORMAT loop: LAA branch")
            if not (len(chain.orelse) == 1 and isinstance(chain.orelse[0], ast.If)):
                raise Unsupported("FORMAT loop: LPL branch missing")
            c2 = chain.orelse[0]
            if src(c2.test) != f"{f}.name == 'LPL' and 'LPL' not in {v}.FORMAT" or [src(x) for x in strip(c2.body)] != [f"val = compute_lpl_field({v}, laa_val)"] \
                    or [src(x) for x in strip(c2.orelse)] != [f"val = {v}.format({f}.name)"]:
                raise Unsupported("FORMAT loop: LPL / default branch")
            ops.append("AFormatEach")
            continue
        raise Unsupported("record loop statement: " + t[:100])
    if not counted:
        raise Unsupported("records not counted")
    # LAA before LPL in format_fields: the swap before the loop
    txt = src(fn)
    laa_first = "if lpl_index < laa_index:" in txt and "format_fields[laa_index], format_fields[lpl_index] = (format_fields[lpl_index], format_fields[laa_index])" in txt
    return fixed, ops, laa_first


def main():
    out_dir = sys.argv[1]
    path = os.path.join(out_dir, "GenExplode.v")
    try:
        tree = ast.parse(open(os.path.join(REPO, "bio2zarr/vcf2zarr/icf.py")).read())
        defs = fixed_defs(tree)
        fixed, ops, laa_first = record_loop(tree)
        text = (f"(* GENERATED by translator/explode2coq.py from {REPO}/bio2zarr/vcf2zarr/icf.py: fixed_vcf_field_definitions, the record loop of process_partition *)\n"
                "From Coq Require Import String List.\nImport ListNotations.\nOpen Scope string_scope.\n\n"
                "(* fixed_vcf_field_definitions: (name, VCF type, VCF number) *)\n"
                f"Definition gen_fixed_fields : list (string * string * string) :=\n  [ {'; '.join('(' + ', '.join(q(x) for x in d) + ')' for d in defs)} ].\n\n"
                "(* tcw.append(\"<FIELD>\", <expression over the record>) in the record loop *)\n"
                f"Definition gen_fixed_appends : list (string * string) :=\n  [ {'; '.join('(' + q(a) + ', ' + q(b) + ')' for a, b in fixed)} ].\n\n"
                "Inductive aop := AFixed (field : string) | AInfoEach | AGtIfPresent | AFormatEach.\n"
                f"(* the appends of one iteration, in order *)\nDefinition gen_record_ops : list aop := [ {'; '.join(ops)} ].\n\n"
                f"(* format_fields is reordered so that LAA comes before LPL *)\nDefinition gen_laa_before_lpl : bool := {'true' if laa_first else 'false'}.\n")
        status = "ok"
    except Unsupported as u:
        text = f"(* TRANSLATION FAILED (fail-closed): {u} *)\n"
        status = "unsupported: " + str(u)
    except (SyntaxError, OSError) as u:
        text = f"(* TRANSLATION FAILED (fail-closed): {type(u).__name__} *)\n"
        status = "unsupported: " + type(u).__name__ + ": " + str(u)
    old = open(path).read() if os.path.exists(path) else None
    if old != text:
        open(path, "w").write(text)
    print(json.dumps({"GenExplode": status}))


if __name__ == "__main__":
    main()
