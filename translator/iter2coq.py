#!/venv/bin/python
"""iter2coq.py -- fail-closed translator for IntermediateColumnarFormatField.iter_values (icf.py; C08): the
two-level searchsorted range read of the intermediate store.  Output: coq/Gen/GenIterValues.v, regenerated on
every run; Bridge/BridgeIterValues.v proves the generated definition equal to Model.Icf.iter_values, the
function range_read (every store shape, every a < b) is about.

Read off the source, in program order:
  start = 0 if start is None else start ; stop = self.num_records if stop is None else stop      defaults (ignored)
  P = np.searchsorted(self.partition_record_index, start, side="right") - 1      ss_right (pri s) start - 1
  O = self.partition_record_index[P]                                            nth P (pri s) 0
  C = start - O
  I = self.chunk_record_index(P)                                                cri (nth P s [])
  K = np.searchsorted(I, C, side="right") - 1                                   ss_right I C - 1
  R = O + I[K]
  for chunk in self.chunks(P, K): for record in chunk: <body>                   the records of chunks K.. of partition P
  for p in range(P + 1, self.num_partitions): for chunk in self.chunks(p): for record in chunk: <body>
                                                                                the records of all later partitions
  body := [if R == stop: return] [if R >= start: yield record | yield record] [R += 1]   -- in exactly this order
asserts and logging are ignored.  Indexes are natural numbers (start >= 0, partition_record_index[0] = 0, so the
searchsorted results are >= 1 before the decrement).  `self.chunks(p, k)` = the chunk lists k.. of partition p is the
read path's meaning (C18's translated skeleton).  Anything else is Unsupported.
"""
import ast
import json
import os
import sys

REPO = os.environ.get("VERIF_REPO", "/repo")


class Unsupported(Exception):
    pass


def src(n):
    return ast.unparse(n)


def strip(body):
    out = []
    for s in body:
        if isinstance(s, ast.Expr) and isinstance(s.value, ast.Constant) and isinstance(s.value.value, str):
            continue
        if isinstance(s, ast.Expr) and isinstance(s.value, ast.Call) and src(s.value.func).split(".")[0] in ("logger", "logging", "print"):
            continue
        if isinstance(s, ast.Assert):
            continue
        out.append(s)
    return out


def body_fix(name, stmts, rid, rec, with_start):
    """the per-record statements -> a Fixpoint over the record list"""
    stmts = strip(stmts)
    ret = yld = inc = None
    order = []
    for st in stmts:
        t = src(st)
        if isinstance(st, ast.If) and not st.orelse and len(strip(st.body)) == 1:
            b = strip(st.body)[0]
            if isinstance(b, ast.Return) and b.value is None and t.startswith(f"if {rid} == stop:"):
                ret = True
                order.append("ret")
                continue
            if isinstance(b, ast.Expr) and isinstance(b.value, ast.Yield) and src(b.value.value) == rec and src(st.test) == f"{rid} >= start":
                yld = "(start <=? rid)"
                order.append("yield")
                continue
        if isinstance(st, ast.Expr) and isinstance(st.value, ast.Yield) and src(st.value.value) == rec:
            yld = "true"
            order.append("yield")
            continue
        if t == f"{rid} += 1":
            inc = True
            order.append("inc")
            continue
        raise Unsupported(f"{name}: record statement: " + t[:80])
    if order != ["ret", "yield", "inc"]:
        raise Unsupported(f"{name}: record statements in the order {order}")
    if with_start and yld == "true":
        pass
    params = "(rid start stop : nat)" if with_start else "(rid stop : nat)"
    args = "(S rid) start stop" if with_start else "(S rid) stop"
    keep = f"(if {yld} then record :: out else out)" if yld != "true" else "record :: out"
    return (f"Fixpoint {name} {params} (l : list A) : list A * nat * bool :=\n  match l with\n  | [] => ([], rid, false)\n"
            f"  | record :: tl => if rid =? stop then ([], rid, true)\n                    else let '(out, r, fin) := {name} {args} tl in\n"
            f"                         ({keep}, r, fin)\n  end.\n")


def translate():
    tree = ast.parse(open(os.path.join(REPO, "bio2zarr/vcf2zarr/icf.py")).read())
    cls = next((n for n in tree.body if isinstance(n, ast.ClassDef) and n.name == "IntermediateColumnarFormatField"), None)
    fn = next((n for n in cls.body if isinstance(n, ast.FunctionDef) and n.name == "iter_values"), None) if cls else None
    if fn is None or [a.arg for a in fn.args.args] != ["self", "start", "stop"]:
        raise Unsupported("iter_values signature")
    body = strip(fn.body)
    t = [src(s) for s in body]
    if t[:2] != ["start = 0 if start is None else start", "stop = self.num_records if stop is None else stop"]:
        raise Unsupported("defaults: " + " | ".join(t[:2])[:120])
    body, t = body[2:], t[2:]
    if len(body) != 8:
        raise Unsupported("iter_values has %d statements after the defaults" % len(body))
    names = {}

    def assign(st, key, want):
        if not (isinstance(st, ast.Assign) and isinstance(st.targets[0], ast.Name)):
            raise Unsupported(key + ": " + src(st)[:80])
        names[key] = st.targets[0].id
        got = src(st.value)
        w = want.format(**names)
        if got != w:
            raise Unsupported(f"{key}: {got[:90]}  (expected {w[:90]})")

    assign(body[0], "P", "np.searchsorted(self.partition_record_index, start, side='right') - 1")
    assign(body[1], "O", "self.partition_record_index[{P}]")
    assign(body[2], "C", "start - {O}")
    assign(body[3], "I", "self.chunk_record_index({P})")
    assign(body[4], "K", "np.searchsorted({I}, {C}, side='right') - 1")
    assign(body[5], "R", "{O} + {I}[{K}]")
    l1, l2 = body[6], body[7]
    if not (isinstance(l1, ast.For) and src(l1.iter) == f"self.chunks({names['P']}, {names['K']})" and isinstance(l1.target, ast.Name) and not l1.orelse):
        raise Unsupported("first loop: " + src(l1)[:80])
    b1 = strip(l1.body)
    if not (len(b1) == 1 and isinstance(b1[0], ast.For) and src(b1[0].iter) == l1.target.id and isinstance(b1[0].target, ast.Name)):
        raise Unsupported("first loop: record loop")
    f1 = body_fix("gen_scan_first", b1[0].body, names["R"], b1[0].target.id, True)
    if not (isinstance(l2, ast.For) and isinstance(l2.target, ast.Name) and src(l2.iter) == f"range({names['P']} + 1, self.num_partitions)" and not l2.orelse):
        raise Unsupported("second loop: " + src(l2)[:80])
    b2 = strip(l2.body)
    if not (len(b2) == 1 and isinstance(b2[0], ast.For) and src(b2[0].iter) == f"self.chunks({l2.target.id})" and isinstance(b2[0].target, ast.Name)):
        raise Unsupported("second loop: chunk loop")
    b3 = strip(b2[0].body)
    if not (len(b3) == 1 and isinstance(b3[0], ast.For) and src(b3[0].iter) == b2[0].target.id and isinstance(b3[0].target, ast.Name)):
        raise Unsupported("second loop: record loop")
    f2 = body_fix("gen_scan_rest", b3[0].body, names["R"], b3[0].target.id, False)
    return f"""(* GENERATED by translator/iter2coq.py from {REPO}/bio2zarr/vcf2zarr/icf.py: IntermediateColumnarFormatField.iter_values *)
From Coq Require Import Arith List Bool.
From B2Z Require Import Model.Icf.
Import ListNotations.

Section GenIter.
Variable A : Type.
Notation store := (list (list (list A))).

{f1}
{f2}
Definition gen_iter_values (s : store) (start stop : nat) : list A :=
  let start_partition := ss_right (pri s) start - 1 in
  let offset := nth start_partition (pri s) 0 in
  let chunk_offset := start - offset in
  let chunk_record_index := cri (nth start_partition s []) in
  let start_chunk := ss_right chunk_record_index chunk_offset - 1 in
  let record_id := offset + nth start_chunk chunk_record_index 0 in
  let '(out, record_id, fin) := gen_scan_first record_id start stop (concat (skipn start_chunk (nth start_partition s []))) in
  if fin then out
  else let '(out2, _, _) := gen_scan_rest record_id stop (concat (map (@concat A) (skipn (S start_partition) s))) in out ++ out2.
End GenIter.
"""


def main():
    out_dir = sys.argv[1]
    path = os.path.join(out_dir, "GenIterValues.v")
    try:
        text = translate()
        status = "ok"
    except Unsupported as u:
        text = f"(* TRANSLATION FAILED (fail-closed): {u} *)\n"
        status = "unsupported: " + str(u)
    except (SyntaxError, OSError, KeyError) as u:
        text = f"(* TRANSLATION FAILED (fail-closed): {type(u).__name__} *)\n"
        status = "unsupported: " + type(u).__name__ + ": " + str(u)
    old = open(path).read() if os.path.exists(path) else None
    if old != text:
        open(path, "w").write(text)
    print(json.dumps({"GenIterValues": status}))


if __name__ == "__main__":
    main()
