#!/venv/bin/python
"""ridx2coq.py -- fail-closed translator for VcfZarrWriter.create_index (the region index, C12) to Gallina
(coq/Gen/GenRegionIndex.v).  Regenerated on every run; Bridge/BridgeRegionIndex.v proves the generated
definitions equal to Model/RegionIndex.v, the model the C12 theorems are about.

Recognised, statement by statement, in program order (local names are free: dataflow, not text):

  root = zarr.open_group(...)                                   store handle
  A = root["variant_contig" | "variant_position" | "variant_length"]     the three input arrays
  assert <shape facts>                                          ignored (cannot change the rows)
  index = []                                                    accumulator
  for k in range(<pos array>.cdata_shape[0]):                   chunk loop
      c = <contig>.blocks[k] ; p = <pos>.blocks[k]              the chunk's blocks
      e = <elementwise integer expression>                      over p, <length>.blocks[k], int literals,
                                                                X.astype(np.int32); every + / - must have an
                                                                int32 operand (numpy then computes in int32,
                                                                wrap written out); arithmetic in the arrays' OWN
                                                                dtype is refused (that was defect F2)
      d = np.diff(c, append=-1) ; s = 0
      for t in np.nonzero(d)[0]:                                run loop (for_ends of Base/NpPrims.v)
          assert c[s] == c[t]
          index.append((<6 scalar expressions>))                over k, s, t, A[i], np.max(A[i:j]), + - ints
          s = t + 1
  index = np.array(index, dtype=np.int32) ; root.array("region_index", data=index, ...) ; attrs ; consolidate
                                                                the tail is checked to store `index` unchanged
Anything else is Unsupported: the unit is emitted as a comment and the bridge stops compiling.
"""
import ast
import json
import os
import sys

REPO = os.environ.get("VERIF_REPO", "/repo")


class Unsupported(Exception):
    pass


def src(n):
    return ast.unparse(n)


def strip(body):
    out = []
    for s in body:
        if isinstance(s, ast.Expr) and isinstance(s.value, ast.Constant) and isinstance(s.value.value, str):
            continue
        if isinstance(s, ast.Expr) and isinstance(s.value, ast.Call) and src(s.value.func).split(".")[0] in ("logger", "logging"):
            continue
        out.append(s)
    return out


def find(tree, qual):
    node = tree
    for name in qual.split("."):
        for n in node.body:
            if isinstance(n, (ast.FunctionDef, ast.ClassDef)) and n.name == name:
                node = n
                break
        else:
            raise Unsupported("not found: " + qual)
    return node


ARRAYS = {"variant_contig": "contig", "variant_position": "pos", "variant_length": "length"}


def zc(n):
    return f"({n})" if n < 0 else str(n)


class T:
    def __init__(self):
        self.store = {}       # local name -> role of a store array
        self.blocks = {}      # local name -> ('c' | 'p' | 'l')   per-chunk blocks
        self.evar = None

    # ---- the elementwise expression for e: returns (coq term over p, l : Z ; is_int32) ------
    def elem(self, e, k):
        if isinstance(e, ast.Constant) and isinstance(e.value, int) and not isinstance(e.value, bool):
            return zc(e.value), "lit"
        if isinstance(e, ast.Name) and e.id in self.blocks:
            return {"c": "c", "p": "p", "l": "l"}[self.blocks[e.id]], "own"
        if isinstance(e, ast.Subscript) and src(e.value).endswith(".blocks") and src(e.value)[:-7] in self.store and src(e.slice) == k:
            return {"contig": "c", "pos": "p", "length": "l"}[self.store[src(e.value)[:-7]]], "own"
        if isinstance(e, ast.Call) and isinstance(e.func, ast.Attribute) and e.func.attr == "astype" and len(e.args) == 1 and not e.keywords:
            if src(e.args[0]) not in ("np.int32", "'int32'", "'i4'", "'<i4'"):
                raise Unsupported("astype to something else than int32: " + src(e))
            t, _ = self.elem(e.func.value, k)
            return f"(wrap32 {t})", "i32"
        if isinstance(e, ast.BinOp) and isinstance(e.op, (ast.Add, ast.Sub)):
            a, ta = self.elem(e.left, k)
            b, tb = self.elem(e.right, k)
            if "i32" not in (ta, tb):
                raise Unsupported("arithmetic in the arrays' own dtype (no int32 operand): " + src(e))
            op = "+" if isinstance(e.op, ast.Add) else "-"
            return f"(wrap32 ({a} {op} {b}))", "i32"
        raise Unsupported("elementwise expression: " + src(e))

    # ---- scalar expressions of the row tuple ---------------------------------------------
    def scalar(self, e, env):
        if isinstance(e, ast.Constant) and isinstance(e.value, int) and not isinstance(e.value, bool):
            return zc(e.value)
        if isinstance(e, ast.Name) and e.id in env:
            return env[e.id]
        if isinstance(e, ast.BinOp) and isinstance(e.op, (ast.Add, ast.Sub)):
            return f"({self.scalar(e.left, env)} {'+' if isinstance(e.op, ast.Add) else '-'} {self.scalar(e.right, env)})"
        if isinstance(e, ast.Subscript) and isinstance(e.value, ast.Name) and (e.value.id in self.blocks or e.value.id == self.evar):
            arr = "e" if e.value.id == self.evar else self.blocks[e.value.id]
            if isinstance(e.slice, ast.Slice):
                if e.slice.step is not None or e.slice.lower is None or e.slice.upper is None:
                    raise Unsupported("slice: " + src(e))
                return f"(zslice {arr} {self.scalar(e.slice.lower, env)} {self.scalar(e.slice.upper, env)})"
            return f"(zidx {arr} {self.scalar(e.slice, env)})"
        if isinstance(e, ast.Call) and src(e.func) in ("np.max", "max") and len(e.args) == 1 and not e.keywords:
            a = self.scalar(e.args[0], env)
            if not a.startswith("(zslice"):
                raise Unsupported("max of a non-slice: " + src(e))
            return f"(np_max {a})"
        if isinstance(e, ast.Call) and src(e.func) == "int" and len(e.args) == 1:
            return self.scalar(e.args[0], env)
        raise Unsupported("scalar expression: " + src(e))

    def translate(self):
        tree = ast.parse(open(os.path.join(REPO, "bio2zarr/vcf2zarr/vcz.py")).read())
        fn = find(tree, "VcfZarrWriter.create_index")
        if [a.arg for a in fn.args.args] != ["self"]:
            raise Unsupported("signature")
        body = strip(fn.body)
        root = acc = None
        loop = None
        i = 0
        while i < len(body):
            st = body[i]
            i += 1
            if isinstance(st, ast.Assign) and len(st.targets) == 1 and isinstance(st.targets[0], ast.Name):
                t, v = st.targets[0].id, st.value
                if isinstance(v, ast.Call) and src(v.func) in ("zarr.open_group", "zarr.open"):
                    kw = {k.arg: src(k.value) for k in v.keywords if k.arg}
                    if kw.get("store") != "self.path":
                        raise Unsupported("store: " + src(v))
                    root = t
                    continue
                if isinstance(v, ast.Subscript) and src(v.value) == root and isinstance(v.slice, ast.Constant) and v.slice.value in ARRAYS:
                    self.store[t] = ARRAYS[v.slice.value]
                    continue
                if isinstance(v, ast.List) and not v.elts:
                    acc = t
                    continue
                raise Unsupported("assignment: " + src(st)[:100])
            if isinstance(st, ast.Assert):
                names = {n.id for n in ast.walk(st.test) if isinstance(n, ast.Name)}
                if names <= set(self.store) and "shape" in src(st.test):
                    continue
                raise Unsupported("assert: " + src(st)[:100])
            if isinstance(st, ast.For):
                loop = st
                break
            raise Unsupported("statement: " + src(st)[:100])
        if loop is None or acc is None or sorted(self.store.values()) != ["contig", "length", "pos"]:
            raise Unsupported("missing loop / accumulator / input arrays")
        tail = body[i:]

        # ---- chunk loop ------------------------------------------------------------------
        if not (isinstance(loop.target, ast.Name) and not loop.orelse):
            raise Unsupported("chunk loop target")
        k = loop.target.id
        it = loop.iter
        if not (isinstance(it, ast.Call) and src(it.func) == "range" and len(it.args) == 1 and src(it.args[0]).endswith(".cdata_shape[0]")
                and src(it.args[0])[: -len(".cdata_shape[0]")] in self.store):
            raise Unsupported("chunk loop range: " + src(it))
        e_term = None
        dvar = svar = None
        runloop = None
        for st in strip(loop.body):
            if isinstance(st, ast.Assign) and len(st.targets) == 1 and isinstance(st.targets[0], ast.Name):
                t, v = st.targets[0].id, st.value
                if isinstance(v, ast.Subscript) and src(v.value).endswith(".blocks") and src(v.value)[:-7] in self.store and src(v.slice) == k:
                    role = self.store[src(v.value)[:-7]]
                    self.blocks[t] = {"contig": "c", "pos": "p", "length": "l"}[role]
                    continue
                if isinstance(v, ast.Call) and src(v.func) == "np.diff":
                    kw = {x.arg: x.value for x in v.keywords}
                    if len(v.args) != 1 or set(kw) != {"append"} or not (isinstance(v.args[0], ast.Name) and self.blocks.get(v.args[0].id) == "c"):
                        raise Unsupported("np.diff: " + src(v))
                    app = kw["append"]
                    if not (isinstance(app, ast.UnaryOp) and isinstance(app.op, ast.USub) and src(app.operand) == "1"):
                        raise Unsupported("np.diff append: " + src(app))
                    dvar = t
                    continue
                if isinstance(v, ast.Constant) and v.value == 0 and dvar is not None:
                    svar = t
                    continue
                if e_term is None and dvar is None:
                    term, ty = self.elem(v, k)
                    if ty != "i32":
                        raise Unsupported("end positions not computed in int32: " + src(v))
                    e_term = term
                    self.evar = t
                    continue
                raise Unsupported("chunk statement: " + src(st)[:100])
            if isinstance(st, ast.For) and runloop is None:
                runloop = st
                continue
            raise Unsupported("chunk statement: " + src(st)[:100])
        if None in (e_term, dvar, svar, runloop):
            raise Unsupported("chunk loop incomplete")
        if [b for b in ("c", "p") if b not in self.blocks.values()]:
            raise Unsupported("blocks of contig / position not bound")

        # ---- run loop --------------------------------------------------------------------
        if not (isinstance(runloop.target, ast.Name) and src(runloop.iter) == f"np.nonzero({dvar})[0]" and not runloop.orelse):
            raise Unsupported("run loop: " + src(runloop.iter))
        tvar = runloop.target.id
        env = {k: "v_chunk", svar: "s", tvar: "t"}
        rb = strip(runloop.body)
        asserts = []
        row = None
        nxt = None
        for st in rb:
            if isinstance(st, ast.Assert) and row is None:
                c = st.test
                if not (isinstance(c, ast.Compare) and len(c.ops) == 1 and isinstance(c.ops[0], ast.Eq)):
                    raise Unsupported("run assert: " + src(st))
                asserts.append(f"({self.scalar(c.left, env)} =? {self.scalar(c.comparators[0], env)})")
                continue
            if isinstance(st, ast.Expr) and isinstance(st.value, ast.Call) and src(st.value.func) == f"{acc}.append" and row is None:
                a = st.value.args
                if len(a) != 1 or not isinstance(a[0], ast.Tuple) or len(a[0].elts) != 6:
                    raise Unsupported("append: " + src(st)[:100])
                row = [self.scalar(x, env) for x in a[0].elts]
                continue
            if isinstance(st, ast.Assign) and isinstance(st.targets[0], ast.Name) and st.targets[0].id == svar and row is not None and nxt is None:
                nxt = self.scalar(st.value, env)
                continue
            raise Unsupported("run statement: " + src(st)[:100])
        if row is None or nxt is None:
            raise Unsupported("run loop incomplete")

        # ---- tail: the rows are stored unchanged ------------------------------------------
        stored = False
        for st in tail:
            t = src(st)
            if isinstance(st, ast.Assign) and src(st.targets[0]) == acc and src(st.value) == f"np.array({acc}, dtype=np.int32)":
                continue
            if isinstance(st, ast.Assign) and isinstance(st.value, ast.Call) and src(st.value.func) == f"{root}.array":
                kw = {x.arg: src(x.value) for x in st.value.keywords}
                if [src(a) for a in st.value.args] != ["'region_index'"] or kw.get("data") != acc or kw.get("shape") != f"{acc}.shape" or kw.get("dtype") != f"{acc}.dtype":
                    raise Unsupported("region_index array creation: " + t[:120])
                stored = True
                continue
            if "_ARRAY_DIMENSIONS" in t and isinstance(st, ast.Assign):
                continue
            if t.startswith("zarr.consolidate_metadata("):
                continue
            raise Unsupported("tail statement: " + t[:100])
        if not stored:
            raise Unsupported("index not stored")

        guard = " && ".join(asserts) if asserts else "true"
        return f"""(* GENERATED by translator/ridx2coq.py from {REPO}/bio2zarr/vcf2zarr/vcz.py: VcfZarrWriter.create_index *)
From Coq Require Import ZArith List Bool.
From B2Z Require Import Base.Prims Base.NpPrims.
Import ListNotations.
Open Scope Z_scope.

(* the elementwise end position: numpy arithmetic with an int32 operand is int32 arithmetic *)
Definition gen_end (c p l : Z) : Z := {e_term}.

(* one variant chunk: c, p = the contig / position blocks, e = the end positions *)
Definition gen_chunk_rows (v_chunk : Z) (c p e : list Z) : res (list (list Z)) :=
  let d := np_diff_append c (-1) in
  for_ends (np_nonzero d) 0
    (fun s t => if {guard} then Ok [{'; '.join(row)}] else Err E_AssertionError)
    (fun s t => {nxt}).

(* for v_chunk in range(cdata_shape[0]): blocks of the three arrays *)
Fixpoint gen_index_from (v_chunk : Z) (blocks : list (list Z * list Z * list Z)) : res (list (list Z)) :=
  match blocks with
  | [] => Ok []
  | (c, p, l) :: tl =>
      match gen_chunk_rows v_chunk c p (map3 gen_end c p l) with
      | Err x => Err x
      | Ok rows => match gen_index_from (v_chunk + 1) tl with Err x => Err x | Ok rest => Ok (rows ++ rest) end
      end
  end.
Definition gen_create_index (blocks : list (list Z * list Z * list Z)) : res (list (list Z)) := gen_index_from 0 blocks.
"""


def main():
    out_dir = sys.argv[1]
    path = os.path.join(out_dir, "GenRegionIndex.v")
    try:
        text = T().translate()
        status = "ok"
    except Unsupported as u:
        text = f"(* TRANSLATION FAILED (fail-closed): {u} *)\n"
        status = "unsupported: " + str(u)
    except (SyntaxError, OSError) as u:
        text = f"(* TRANSLATION FAILED (fail-closed): {type(u).__name__} *)\n"
        status = "unsupported: " + type(u).__name__ + ": " + str(u)
    old = open(path).read() if os.path.exists(path) else None
    if old != text:
        open(path, "w").write(text)
    print(json.dumps({"GenRegionIndex": status}))


if __name__ == "__main__":
    main()
