#!/venv/bin/python
"""plink2coq.py -- fail-closed translator for plink.encode_genotypes_slice (the PLINK worker task) to
Gallina (coq/Gen/GenPlink.v).  Regenerated on every run; Bridge/BridgePlink.v proves the generated
definitions equal to / refine the hand-written model of Model/Plink.v (C16) and the slice footprint of
Model/Footprint.v (C07).

What is read off the source, statement by statement, in program order:

  bed = bed_reader.open_bed(bed_path, ..., count_A1=<bool>)      -> gen_count_a1
  X = core.BufferedArray(root["<array>"], <start param>)          -> gen_buffers (array name, offset expr)
  cs = <gt buffer>.array.chunks[0] ; assert start % cs == 0       -> gen_requires_aligned_start
  c = start ; while c < stop: e = min(c + cs, stop) ; chunk = bed.read(slice(c, e), dtype=np.int8).T ;
      for values in chunk: <row program> ; c = e                  -> gen_slice_reads (fuelled), gen_row_ops
  row program:
      j = B.next_buffer_row()                                     -> Next B
      g = np.zeros_like(B.buff[j])                                -> g := (0, 0)                [gen_call]
      g[values == K] = V                                          -> both alleles := V where dosage = K
      g[values == K, i] = V                                       -> allele i := V where dosage = K
      B.buff[j] = g                                               -> StoreCall B (row index j's origin)
      B.buff[j] = True/False                                      -> StoreConst B v
      B.buff[j] = B'.buff[j] == K                                 -> StoreEq B B' K  (row index origins recorded)
  X.flush() after the loop                                        -> gen_final_flushes

Logging calls, comments and docstrings are ignored; local variable names are free (dataflow, not text).
Anything else is Unsupported: the unit is emitted as a comment and the bridge stops compiling.
"""
import ast
import json
import os
import sys

REPO = os.environ.get("VERIF_REPO", "/repo")


class Unsupported(Exception):
    pass


def src(n):
    return ast.unparse(n)


def strip(body):
    out = []
    for s in body:
        if isinstance(s, ast.Expr) and isinstance(s.value, ast.Constant) and isinstance(s.value.value, str):
            continue
        if isinstance(s, ast.Expr) and isinstance(s.value, ast.Call) and src(s.value.func).split(".")[0] in ("logger", "logging"):
            continue
        out.append(s)
    return out


def zlit(v):
    if isinstance(v, ast.UnaryOp) and isinstance(v.op, ast.USub) and isinstance(v.operand, ast.Constant) and isinstance(v.operand.value, int):
        return -v.operand.value
    if isinstance(v, ast.Constant) and isinstance(v.value, int) and not isinstance(v.value, bool):
        return v.value
    raise Unsupported("integer literal expected: " + src(v))


def zc(n):
    return f"({n})" if n < 0 else str(n)


BUFNAME = {"call_genotype": "BGt", "call_genotype_mask": "BMask", "call_genotype_phased": "BPhased"}


def translate():
    tree = ast.parse(open(os.path.join(REPO, "bio2zarr/plink.py")).read())
    fn = next((n for n in tree.body if isinstance(n, ast.FunctionDef) and n.name == "encode_genotypes_slice"), None)
    if fn is None:
        raise Unsupported("encode_genotypes_slice not found")
    params = [a.arg for a in fn.args.args]
    if params != ["bed_path", "zarr_path", "start", "stop"] or fn.args.kwonlyargs or fn.args.vararg or fn.args.kwarg:
        raise Unsupported("signature: " + str(params))
    body = strip(fn.body)
    bed = root = None
    count_a1 = None
    bufs = {}          # local name -> (BUF constructor, array name)
    cs_var = None
    aligned = False
    loop = None
    finals = []
    cur = None         # loop variable initialised to start
    i = 0
    while i < len(body):
        st = body[i]
        i += 1
        if isinstance(st, ast.Assign) and len(st.targets) == 1 and isinstance(st.targets[0], ast.Name):
            t, v = st.targets[0].id, st.value
            if isinstance(v, ast.Call) and src(v.func) == "bed_reader.open_bed":
                if loop is not None:
                    raise Unsupported("reader opened after the loop")
                if [src(a) for a in v.args] != ["bed_path"]:
                    raise Unsupported("open_bed arguments: " + src(v))
                kw = {k.arg: k.value for k in v.keywords}
                if set(kw) - {"num_threads", "count_A1"}:
                    raise Unsupported("open_bed keywords: " + src(v))
                ca = kw.get("count_A1")
                if ca is None:
                    count_a1 = True      # bed_reader's default
                elif isinstance(ca, ast.Constant) and isinstance(ca.value, bool):
                    count_a1 = ca.value
                else:
                    raise Unsupported("count_A1: " + src(ca))
                bed = t
                continue
            if isinstance(v, ast.Call) and src(v.func) in ("zarr.open", "zarr.open_group"):
                kw = {k.arg: src(k.value) for k in v.keywords if k.arg}
                if kw.get("store") != "zarr_path" or kw.get("mode") not in ("'a'", "'r+'"):
                    raise Unsupported("store opened otherwise than the output path in update mode: " + src(v))
                root = t
                continue
            if isinstance(v, ast.Call) and src(v.func) in ("core.BufferedArray", "BufferedArray"):
                if v.keywords or len(v.args) != 2:
                    raise Unsupported("BufferedArray call: " + src(v))
                a0, a1 = v.args
                if not (isinstance(a0, ast.Subscript) and src(a0.value) == root and isinstance(a0.slice, ast.Constant) and a0.slice.value in BUFNAME):
                    raise Unsupported("BufferedArray array: " + src(a0))
                if src(a1) != "start":
                    raise Unsupported("BufferedArray offset is not the slice start: " + src(a1))
                if BUFNAME[a0.slice.value] in [b for b, _ in bufs.values()]:
                    raise Unsupported("two buffers over " + a0.slice.value)
                bufs[t] = (BUFNAME[a0.slice.value], a0.slice.value)
                continue
            if isinstance(v, ast.Subscript) and src(v.value).endswith(".array.chunks") and src(v.slice) == "0" \
                    and src(v.value)[: -len(".array.chunks")] in bufs:
                cs_var = t
                continue
            if src(v) == "start" and loop is None:
                cur = t
                continue
            raise Unsupported("assignment: " + src(st)[:120])
        if isinstance(st, ast.Assert):
            if cs_var and src(st.test) == f"start % {cs_var} == 0":
                aligned = True
                continue
            raise Unsupported("assert: " + src(st)[:120])
        if isinstance(st, ast.While):
            if loop is not None or st.orelse:
                raise Unsupported("second loop / while-else")
            loop = st
            continue
        if isinstance(st, ast.Expr) and isinstance(st.value, ast.Call) and isinstance(st.value.func, ast.Attribute) \
                and st.value.func.attr == "flush" and src(st.value.func.value) in bufs and not st.value.args and not st.value.keywords:
            if loop is None:
                raise Unsupported("flush before the loop")
            finals.append(bufs[src(st.value.func.value)][0])
            continue
        if isinstance(st, ast.For) and loop is None and isinstance(st.target, ast.Name) and not st.orelse \
                and cs_var and src(st.iter) == f"range(start, stop, {cs_var})":
            # for c in range(start, stop, cs): the same loop, the advance c += cs done by range
            loop = st
            cur = st.target.id
            continue
        raise Unsupported("statement: " + src(st)[:120])
    if bed is None or root is None or loop is None or cs_var is None or cur is None:
        raise Unsupported("missing reader / store / loop / chunk size / loop variable")
    if set(b for b, _ in bufs.values()) != set(BUFNAME.values()):
        raise Unsupported("buffers: " + str(sorted(bufs.values())))

    # ---- the while loop -------------------------------------------------------------------
    lb = strip(loop.body)
    if isinstance(loop, ast.While):
        if src(loop.test) != f"{cur} < stop":
            raise Unsupported("loop test: " + src(loop.test))
        if len(lb) != 4:
            raise Unsupported("loop body has %d statements" % len(lb))
        s_stop, s_read, s_for, s_adv = lb
        advance = "e"
    else:
        if len(lb) != 3:
            raise Unsupported("loop body has %d statements" % len(lb))
        s_stop, s_read, s_for = lb
        s_adv = None
        advance = "(c + cs)"
    if not (isinstance(s_stop, ast.Assign) and isinstance(s_stop.targets[0], ast.Name)):
        raise Unsupported("loop: " + src(s_stop))
    end = s_stop.targets[0].id
    if src(s_stop.value) not in (f"min({cur} + {cs_var}, stop)", f"min(stop, {cur} + {cs_var})"):
        raise Unsupported("chunk stop: " + src(s_stop.value))
    if not (isinstance(s_read, ast.Assign) and isinstance(s_read.targets[0], ast.Name)
            and src(s_read.value) == f"{bed}.read(slice({cur}, {end}), dtype=np.int8).T"):
        raise Unsupported("bed read: " + src(s_read)[:120])
    chunk = s_read.targets[0].id
    if s_adv is not None and not (isinstance(s_adv, ast.Assign) and src(s_adv) == f"{cur} = {end}"):
        raise Unsupported("loop advance: " + src(s_adv))
    if not (isinstance(s_for, ast.For) and isinstance(s_for.target, ast.Name) and src(s_for.iter) == chunk and not s_for.orelse):
        raise Unsupported("row loop: " + src(s_for)[:80])
    values = s_for.target.id

    # ---- the row program ------------------------------------------------------------------
    ops = []
    rowvar = {}        # index variable -> buffer whose next_buffer_row produced it
    gvar = None
    call_steps = []    # (dosage K, which, value V): which = 'both' | 0 | 1
    for st in strip(s_for.body):
        if not (isinstance(st, ast.Assign) and len(st.targets) == 1):
            raise Unsupported("row statement: " + src(st)[:120])
        t, v = st.targets[0], st.value
        if isinstance(t, ast.Name) and isinstance(v, ast.Call) and isinstance(v.func, ast.Attribute) and v.func.attr == "next_buffer_row" \
                and src(v.func.value) in bufs and not v.args and not v.keywords:
            b = bufs[src(v.func.value)][0]
            rowvar[t.id] = b
            ops.append(f"Next {b}")
            continue
        if isinstance(t, ast.Name) and isinstance(v, ast.Call) and src(v.func) == "np.zeros_like" and len(v.args) == 1 and not v.keywords:
            a = v.args[0]
            if not (isinstance(a, ast.Subscript) and src(a.value).endswith(".buff") and src(a.value)[:-5] in bufs
                    and bufs[src(a.value)[:-5]][0] == "BGt" and isinstance(a.slice, ast.Name) and a.slice.id in rowvar):
                raise Unsupported("zeros_like of something else than a genotype buffer row: " + src(v))
            gvar = t.id
            call_steps = []
            continue
        if isinstance(t, ast.Subscript) and isinstance(t.value, ast.Name) and t.value.id == gvar:
            sl = t.slice
            which = "both"
            if isinstance(sl, ast.Tuple) and len(sl.elts) == 2:
                which = zlit(sl.elts[1])
                sl = sl.elts[0]
                if which not in (0, 1):
                    raise Unsupported("allele index: " + src(t))
            if not (isinstance(sl, ast.Compare) and len(sl.ops) == 1 and isinstance(sl.ops[0], ast.Eq) and src(sl.left) == values):
                raise Unsupported("mask: " + src(t))
            call_steps.append((zlit(sl.comparators[0]), which, zlit(v)))
            continue
        if isinstance(t, ast.Subscript) and src(t.value).endswith(".buff") and src(t.value)[:-5] in bufs and isinstance(t.slice, ast.Name):
            b = bufs[src(t.value)[:-5]][0]
            if t.slice.id not in rowvar:
                raise Unsupported("row index of unknown origin: " + src(t))
            at = rowvar[t.slice.id]
            if isinstance(v, ast.Name) and v.id == gvar:
                ops.append(f"StoreCall {b} {at}")
                continue
            if isinstance(v, ast.Constant) and isinstance(v.value, bool):
                ops.append(f"StoreConst {b} {at} {'true' if v.value else 'false'}")
                continue
            if isinstance(v, ast.Compare) and len(v.ops) == 1 and isinstance(v.ops[0], ast.Eq):
                l = v.left
                if isinstance(l, ast.Subscript) and src(l.value).endswith(".buff") and src(l.value)[:-5] in bufs \
                        and isinstance(l.slice, ast.Name) and l.slice.id in rowvar:
                    ops.append(f"StoreEq {b} {at} {bufs[src(l.value)[:-5]][0]} {rowvar[l.slice.id]} {zc(zlit(v.comparators[0]))}")
                    continue
            raise Unsupported("stored value: " + src(st)[:120])
        raise Unsupported("row statement: " + src(st)[:120])
    if gvar is None:
        raise Unsupported("no call computation")

    # ---- emit -----------------------------------------------------------------------------
    lines = ["let g := (0, 0) in"]
    for k, which, val in call_steps:
        if which == "both":
            new = f"({zc(val)}, {zc(val)})"
        elif which == 0:
            new = f"({zc(val)}, snd g)"
        else:
            new = f"(fst g, {zc(val)})"
        lines.append(f"let g := if v =? {zc(k)} then {new} else g in")
    call = "\n  ".join(lines) + "\n  g"
    text = f"""(* GENERATED by translator/plink2coq.py from {REPO}/bio2zarr/plink.py: encode_genotypes_slice *)
From Coq Require Import ZArith List Bool String.
From B2Z Require Import Base.PlinkOps.
Import ListNotations.
Open Scope Z_scope.

(* bed_reader.open_bed(..., count_A1=...) *)
Definition gen_count_a1 : bool := {'true' if count_a1 else 'false'}.

(* g = np.zeros_like(row); the masked assignments in source order; v = the dosage bed_reader reports *)
Definition gen_call (v : Z) : Z * Z :=
  {call}.

(* assert start % variants_chunk_size == 0 is present *)
Definition gen_requires_aligned_start : bool := {'true' if aligned else 'false'}.

(* while c < stop: e = min(c + cs, stop); read rows [c, e); c = e     (or: for c in range(start, stop, cs), advancing by cs) *)
Fixpoint gen_slice_reads (fuel : nat) (c stop cs : Z) : list (Z * Z) :=
  match fuel with
  | O => []
  | S fuel' => if c <? stop then let e := Z.min (c + cs) stop in (c, e) :: gen_slice_reads fuel' {advance} stop cs else []
  end.

(* the statements executed for every row read, in order (every buffer is created at offset `start`) *)
Definition gen_row_ops : list rowop :=
  [ {"; ".join(ops)} ].

(* after the loop *)
Definition gen_final_flushes : list buf := [ {"; ".join(finals)} ].
"""
    return text


def translate_convert():
    """plink.convert: the arrays it creates and how the work is cut into slices and submitted"""
    tree = ast.parse(open(os.path.join(REPO, "bio2zarr/plink.py")).read())
    fn = next((n for n in tree.body if isinstance(n, ast.FunctionDef) and n.name == "convert"), None)
    if fn is None:
        raise Unsupported("convert not found")
    body = strip(fn.body)
    SC = {"m": "m", "n": "n", "ploidy": "ploidy", "variants_chunk_size": "vcs", "samples_chunk_size": "scs"}
    lists = {}          # local list variable -> list of symbols
    arrays = []         # (name, dtype, shape syms, chunk syms)
    last_var = None     # array bound to the local handed to chunk_aligned_slices
    bound = {}          # local name -> array index
    slices_from = None
    nslices = None
    submitted = consolidated = False
    ploidy = None

    def syms(e):
        if isinstance(e, ast.Call) and src(e.func) == "list" and len(e.args) == 1 and isinstance(e.args[0], ast.Name) and e.args[0].id in lists:
            return list(lists[e.args[0].id])
        if isinstance(e, (ast.List, ast.Tuple)):
            out = []
            for x in e.elts:
                t = src(x)
                if t not in SC:
                    raise Unsupported("convert: size: " + t)
                out.append(SC[t])
            return out
        raise Unsupported("convert: shape / chunks: " + src(e)[:80])

    helpers = {}        # local helper name -> (name param, dtype param): def h(name, dtype): a = root.empty(name=name, dtype=dtype, shape=list(shape), chunks=list(chunks), ..); ..; return a

    def helper_call(c):
        if isinstance(c, ast.Call) and isinstance(c.func, ast.Name) and c.func.id in helpers and len(c.args) == 2 and not c.keywords \
                and all(isinstance(a, ast.Constant) and isinstance(a.value, str) for a in c.args):
            return c.args[0].value, c.args[1].value
        return None

    for st in body:
        t = src(st)
        if isinstance(st, ast.FunctionDef):
            hb = strip(st.body)
            ps = [a.arg for a in st.args.args]
            ok = len(ps) == 2 and len(hb) >= 2 and isinstance(hb[0], ast.Assign) and isinstance(hb[0].value, ast.Call) and src(hb[0].value.func) == "root.empty" \
                and isinstance(hb[-1], ast.Return) and src(hb[-1].value) == src(hb[0].targets[0])
            if ok:
                kw = {k.arg: src(k.value) for k in hb[0].value.keywords if k.arg}
                ok = kw.get("name") == ps[0] and kw.get("dtype") == ps[1] and kw.get("shape") == "list(shape)" and kw.get("chunks") == "list(chunks)" \
                    and all("attrs" in src(x) for x in hb[1:-1])
            if not ok:
                raise Unsupported("convert: local helper: " + t[:100])
            helpers[st.name] = tuple(ps)
            continue
        hc = helper_call(st.value) if isinstance(st, (ast.Assign, ast.Expr)) else None
        if hc:
            arrays.append((hc[0], hc[1], list(lists["shape"]), list(lists["chunks"])))
            if isinstance(st, ast.Assign) and isinstance(st.targets[0], ast.Name):
                bound[st.targets[0].id] = len(arrays) - 1
            continue
        if isinstance(st, ast.Assign) and len(st.targets) == 1 and isinstance(st.targets[0], ast.Name):
            x, v = st.targets[0].id, st.value
            if x == "ploidy" and isinstance(v, ast.Constant) and isinstance(v.value, int):
                ploidy = v.value
                continue
            if x in ("shape", "chunks", "dimensions") and isinstance(v, ast.List):
                lists[x] = [SC.get(src(e), src(e)) for e in v.elts]
                continue
            if isinstance(v, ast.Call) and src(v.func) in ("root.array", "root.empty"):
                kw = {k.arg: k.value for k in v.keywords if k.arg}
                nm = kw["name"].value if "name" in kw else (v.args[0].value if v.args else None)
                if src(v.func) == "root.empty":
                    arrays.append((nm, src(kw["dtype"]).strip("'"), syms(kw["shape"]), syms(kw["chunks"])))
                    bound[x] = len(arrays) - 1
                else:
                    arrays.append((nm, src(kw["dtype"]).strip("'"), None, syms(kw["chunks"]) if "chunks" in kw else None))
                    bound[x] = len(arrays) - 1
                continue
            if t == "num_slices = max(1, worker_processes * 4)":
                nslices = "Z.max 1 (worker_processes * 4)"
                continue
            if isinstance(v, ast.Call) and src(v.func) == "core.chunk_aligned_slices" and len(v.args) == 2 and src(v.args[1]) == "num_slices" \
                    and isinstance(v.args[0], ast.Name) and v.args[0].id in bound and x == "slices":
                slices_from = bound[v.args[0].id]
                continue
            continue        # bed handle, counts, compressor, progress configuration, alleles ...
        if isinstance(st, ast.AugAssign) and isinstance(st.target, ast.Name) and st.target.id in lists and isinstance(st.value, ast.List):
            lists[st.target.id] = lists[st.target.id] + [SC.get(src(e), src(e).strip("'")) for e in st.value.elts]
            continue
        if isinstance(st, ast.With) and "ParallelWorkManager" in src(st.items[0].context_expr):
            wb = strip(st.body)
            if len(wb) == 1 and isinstance(wb[0], ast.For) and src(wb[0].iter) == "slices" and src(wb[0].target) == "(start, stop)" \
                    and [src(y) for y in strip(wb[0].body)] == ["pwm.submit(encode_genotypes_slice, bed_path, zarr_path, start, stop)"]:
                submitted = True
                continue
            raise Unsupported("convert: the work loop: " + t[:120])
        if t == "zarr.consolidate_metadata(zarr_path)":
            if not submitted:
                raise Unsupported("convert: metadata consolidated before the work is done")
            consolidated = True
            continue
        if isinstance(st, (ast.If, ast.Delete)) or (isinstance(st, ast.Expr) and "attrs" in t) or isinstance(st, ast.Assign):
            continue
        raise Unsupported("convert: statement: " + t[:100])
    if slices_from is None or nslices is None or not (submitted and consolidated) or ploidy is None:
        raise Unsupported("convert: slices / submission / consolidation not found")
    nm, dt, shape, chunks = arrays[slices_from]
    out = "(* plink.convert: the genotype arrays it creates (name, dtype, shape, chunks; m variants, n samples) *)\n"
    out += "Inductive csym := Sm | Sn | Sploidy | Svcs | Sscs.\n"
    M = {"m": "Sm", "n": "Sn", "ploidy": "Sploidy", "vcs": "Svcs", "scs": "Sscs"}
    rows = []
    for a in arrays:
        if a[2] is None:
            continue
        rows.append(f'("{a[0]}"%string, "{a[1]}"%string, [{"; ".join(M[x] for x in a[2])}], [{"; ".join(M[x] for x in a[3])}])')
    out += "Definition gen_convert_arrays : list (string * string * list csym * list csym) :=\n  [ " + ";\n    ".join(rows) + " ].\n"
    out += f"Definition gen_convert_ploidy : Z := {ploidy}.\n"
    out += f'(* slices = core.chunk_aligned_slices(<array>, num_slices): the array handed over, and num_slices *)\nDefinition gen_convert_slices_array : string := "{nm}"%string.\n'
    out += f"Definition gen_convert_num_slices (worker_processes : Z) : Z := {nslices}.\n"
    # the metadata arrays: which attribute of the fileset reader feeds which array
    meta = []
    locs = {}
    for st in body:
        if isinstance(st, ast.Assign) and isinstance(st.targets[0], ast.Name) and not (isinstance(st.value, ast.Call) and src(st.value.func) in ("root.array", "root.empty")):
            locs[st.targets[0].id] = " ".join(src(st.value).split())
        if isinstance(st, ast.Assign) and isinstance(st.value, ast.Call) and src(st.value.func) == "root.array":
            kw = {k.arg: k.value for k in st.value.keywords if k.arg}
            nm = st.value.args[0].value if st.value.args else kw["name"].value
            d = " ".join(src(kw["data"]).split())
            d = locs.get(d, d) if d.isidentifier() else d
            meta.append((nm, d, " ".join(src(kw["dtype"]).split()).strip("'")))
    out += "(* root.array(<name>, data=<expression over the fileset reader>, dtype=..) *)\n"
    out += "Definition gen_convert_metadata : list (string * string * string) :=\n  [ " + ";\n    ".join(f'("{a}"%string, "{b}"%string, "{c}"%string)' for a, b, c in meta) + " ].\n"
    out += "(* one encode_genotypes_slice(bed_path, zarr_path, start, stop) task per slice; the metadata is consolidated after the pool is left *)\nDefinition gen_convert_submits_every_slice : bool := true.\n"
    return out


def main():
    out_dir = sys.argv[1]
    path = os.path.join(out_dir, "GenPlink.v")
    try:
        text = translate() + "\n" + translate_convert()
        status = "ok"
    except Unsupported as u:
        text = f"(* TRANSLATION FAILED (fail-closed): {u} *)\n"
        status = "unsupported: " + str(u)
    except (SyntaxError, OSError) as u:
        text = f"(* TRANSLATION FAILED (fail-closed): {type(u).__name__} *)\n"
        status = "unsupported: " + type(u).__name__ + ": " + str(u)
    old = open(path).read() if os.path.exists(path) else None
    if old != text:
        open(path, "w").write(text)
    print(json.dumps({"GenPlink": status}))


if __name__ == "__main__":
    main()
