#!/venv/bin/python
"""summ2coq.py -- fail-closed translator for the integer field summaries of icf.py (C08, C10):
IntegerValueTransformer.update_bounds (one record's value folded into the field's running summary) and
VcfFieldSummary.update (the merge of the per-partition summaries at finalise), to Gallina
(coq/Gen/GenSummary.v).  Regenerated on every run; Bridge/BridgeSummary.v proves them equal -- through the
abstraction "min/max are both infinite or both finite" -- to Model.Icf.upd / merge, the functions summary_bounds and
summary_partition_independent (C08) are about and whose result VcfField.smallest_dtype (C10) consumes.

Values are extended integers (the dataclass defaults are -inf / +inf): ext := NegInf | Fin z | PosInf with
Python's min / max.  Read off update_bounds, statement by statement:
    a = value[value >= constants.MIN_INT_VALUE]                    the non-sentinel entries
    if a.size > 0: summary.max_value = int(max(summary.max_value, np.max(a)))
                   summary.min_value = int(min(summary.min_value, np.min(a)))      (either order)
    number = value.shape[-1] ; summary.max_number = max(summary.max_number, number)
and off update:  self.X += other.X (counters, ignored) ; self.F = max|min(self.F, other.F) for the three fields.
Anything else is Unsupported: the unit is emitted as a comment and the bridge stops compiling.
"""
import ast
import json
import os
import sys

REPO = os.environ.get("VERIF_REPO", "/repo")


class Unsupported(Exception):
    pass


def src(n):
    return ast.unparse(n)


def strip(body):
    out = []
    for s in body:
        if isinstance(s, ast.Expr) and isinstance(s.value, ast.Constant) and isinstance(s.value.value, str):
            continue
        if isinstance(s, ast.Expr) and isinstance(s.value, ast.Call) and src(s.value.func).split(".")[0] in ("logger", "logging", "print"):
            continue
        out.append(s)
    return out


def cls_fn(tree, cls, fn):
    c = next((n for n in tree.body if isinstance(n, ast.ClassDef) and n.name == cls), None)
    f = next((n for n in c.body if isinstance(n, ast.FunctionDef) and n.name == fn), None) if c else None
    if f is None:
        raise Unsupported(f"not found: {cls}.{fn}")
    return f


def min_int_value(ctree):
    for st in ctree.body:
        if isinstance(st, ast.Assign) and src(st.targets[0]) == "MIN_INT_VALUE":
            t = src(st.value)
            if t.startswith("np.iinfo(np.int32).min + ") and t[len("np.iinfo(np.int32).min + "):].isdigit():
                return -(2**31) + int(t[len("np.iinfo(np.int32).min + "):])
    raise Unsupported("constants.MIN_INT_VALUE")


def update_bounds(tree, mn):
    fn = cls_fn(tree, "IntegerValueTransformer", "update_bounds")
    if [a.arg for a in fn.args.args] != ["self", "value"]:
        raise Unsupported("update_bounds signature")
    body = strip(fn.body)
    t = [src(x) for x in body]
    if len(body) != 5 or t[0] != "summary = self.field.summary" or t[1] != "a = value[value >= constants.MIN_INT_VALUE]" \
            or t[3] != "number = value.shape[-1]" or t[4] != "summary.max_number = max(summary.max_number, number)":
        raise Unsupported("update_bounds: " + " | ".join(t)[:200])
    cond = body[2]
    if not (isinstance(cond, ast.If) and src(cond.test) == "a.size > 0" and not cond.orelse):
        raise Unsupported("update_bounds: the bounds are not updated under `if a.size > 0`: " + t[2][:100])
    ups = sorted(src(x) for x in strip(cond.body))
    if ups != ["summary.max_value = int(max(summary.max_value, np.max(a)))", "summary.min_value = int(min(summary.min_value, np.min(a)))"]:
        raise Unsupported("update_bounds: bound updates: " + " | ".join(ups)[:200])
    return f"""Definition c_MIN_INT_VALUE : Z := ({mn}).

(* value = (value.shape[-1], all entries of the array) *)
Definition gen_update_bounds (s : gsum) (value : Z * list Z) : gsum :=
  let a := filter (fun x => c_MIN_INT_VALUE <=? x) (snd value) in
  let s := match a with
           | [] => s
           | x :: tl => {{| g_max_number := g_max_number s;
                           g_max_value := ext_max (g_max_value s) (Fin (fold_left Z.max tl x));
                           g_min_value := ext_min (g_min_value s) (Fin (fold_left Z.min tl x)) |}}
           end in
  let number := fst value in
  {{| g_max_number := Z.max (g_max_number s) number; g_max_value := g_max_value s; g_min_value := g_min_value s |}}.
"""


def update(tree):
    fn = cls_fn(tree, "VcfFieldSummary", "update")
    if [a.arg for a in fn.args.args] != ["self", "other"]:
        raise Unsupported("update signature")
    seen = {}
    for st in strip(fn.body):
        t = src(st)
        if isinstance(st, ast.AugAssign) and isinstance(st.op, ast.Add) and src(st.target).startswith("self.") and src(st.value) == "other." + src(st.target)[5:] \
                and src(st.target)[5:] in ("num_chunks", "compressed_size", "uncompressed_size"):
            continue
        if isinstance(st, ast.Assign) and src(st.targets[0]).startswith("self."):
            f = src(st.targets[0])[5:]
            v = src(st.value)
            for op in ("max", "min"):
                if v in (f"{op}(self.{f}, other.{f})", f"{op}(other.{f}, self.{f})"):
                    seen[f] = op
                    break
            else:
                raise Unsupported("update: " + t[:100])
            continue
        raise Unsupported("update: " + t[:100])
    if seen != {"max_number": "max", "min_value": "min", "max_value": "max"}:
        raise Unsupported("update: fields merged: " + str(seen))
    return """Definition gen_update (s other : gsum) : gsum :=
  {| g_max_number := Z.max (g_max_number s) (g_max_number other);
     g_max_value := ext_max (g_max_value s) (g_max_value other);
     g_min_value := ext_min (g_min_value s) (g_min_value other) |}.
"""


def defaults(tree):
    c = next((n for n in tree.body if isinstance(n, ast.ClassDef) and n.name == "VcfFieldSummary"), None)
    d = {}
    for st in c.body if c else []:
        if isinstance(st, ast.AnnAssign) and st.value is not None:
            d[src(st.target)] = src(st.value)
    if d.get("max_number") != "0" or d.get("max_value") != "-math.inf" or d.get("min_value") != "math.inf":
        raise Unsupported("VcfFieldSummary defaults: " + str(d))
    return "Definition gen_summary0 : gsum := {| g_max_number := 0; g_max_value := NegInf; g_min_value := PosInf |}.\n"


def main():
    out_dir = sys.argv[1]
    path = os.path.join(out_dir, "GenSummary.v")
    try:
        tree = ast.parse(open(os.path.join(REPO, "bio2zarr/vcf2zarr/icf.py")).read())
        ctree = ast.parse(open(os.path.join(REPO, "bio2zarr/constants.py")).read())
        text = (f"(* GENERATED by translator/summ2coq.py from {REPO}/bio2zarr/vcf2zarr/icf.py: IntegerValueTransformer.update_bounds, VcfFieldSummary.update *)\n"
                "From Coq Require Import ZArith List Bool.\nFrom B2Z Require Import Base.ExtZ.\nImport ListNotations.\nOpen Scope Z_scope.\n\n"
                + defaults(tree) + "\n" + update_bounds(tree, min_int_value(ctree)) + "\n" + update(tree))
        status = "ok"
    except Unsupported as u:
        text = f"(* TRANSLATION FAILED (fail-closed): {u} *)\n"
        status = "unsupported: " + str(u)
    except (SyntaxError, OSError) as u:
        text = f"(* TRANSLATION FAILED (fail-closed): {type(u).__name__} *)\n"
        status = "unsupported: " + type(u).__name__ + ": " + str(u)
    old = open(path).read() if os.path.exists(path) else None
    if old != text:
        open(path, "w").write(text)
    print(json.dumps({"GenSummary": status}))


if __name__ == "__main__":
    main()
