#!/venv/bin/python
"""workers2coq.py -- fail-closed *skeleton* translator for control-flow code that is not
integer arithmetic (C14: wait_on_futures / ParallelWorkManager / the pipeline drivers;
C18: the read path of the intermediate store).

Each unit lists functions of /repo.  A function is reduced to a normal form: docstrings,
logging calls, annotations and comments dropped, local names alpha-renamed in order of first
occurrence, then ast.dump.  The translator recognises exactly the normal forms recorded in
translator/shapes/<unit>.nf.json (recorded from the tree the Gallina text was written against)
and then emits translator/shapes/<unit>.v as coq/Gen/<unit>.v.  Any other shape is
Unsupported: the unit is not emitted, the bridge lemma over it no longer compiles, and the
check goes to its failing-input search (fault injection / fault enumeration on the real code).

usage: workers2coq.py <coq/Gen dir> [--record]
"""
import ast
import hashlib
import json
import os
import sys

REPO = os.environ.get("VERIF_REPO", "/repo")
HERE = os.path.dirname(os.path.abspath(__file__))
SRC = {
    "core": "bio2zarr/core.py",
    "icf": "bio2zarr/vcf2zarr/icf.py",
    "vcz": "bio2zarr/vcf2zarr/vcz.py",
    "plink": "bio2zarr/plink.py",
}
UNITS = {
    "GenWorkers": [
        ("core", "wait_on_futures"),
        ("core", "cancel_futures"),
        ("core", "SynchronousExecutor.submit"),
        ("core", "ParallelWorkManager.submit"),
        ("core", "ParallelWorkManager.results_as_completed"),
        ("core", "ParallelWorkManager.__exit__"),
        ("icf", "IntermediateColumnarFormatWriter.explode"),
        ("icf", "explode"),
        ("vcz", "VcfZarrWriter.encode_all_partitions"),
        ("vcz", "encode"),
    ],
    "GenReadPath": [
        ("icf", "IntermediateColumnarFormatField.chunk_record_index"),
        ("icf", "IntermediateColumnarFormatField.read_chunk"),
        ("icf", "IntermediateColumnarFormatField.chunks"),
        ("icf", "IntermediateColumnarFormatField.values"),
        ("icf", "IntermediateColumnarFormat.__init__"),
    ],
}
# functions of which only a sub-block is part of the skeleton: (module, qualname) -> predicate on statements
PARTIAL = {
    ("plink", "convert"): "with-pwm",
}


class Unsupported(Exception):
    pass


def find(tree, qual):
    node = tree
    for name in qual.split("."):
        for n in node.body:
            if isinstance(n, (ast.FunctionDef, ast.ClassDef)) and n.name == name:
                node = n
                break
        else:
            raise Unsupported("not found: " + qual)
    return node


class Normalise(ast.NodeTransformer):
    def __init__(self):
        self.names = {}

    def rn(self, name):
        if name not in self.names:
            self.names[name] = f"v{len(self.names)}"
        return self.names[name]

    def visit_FunctionDef(self, node):
        node.returns = None
        node.decorator_list = []
        for a in node.args.args + node.args.kwonlyargs + node.args.posonlyargs:
            a.annotation = None
            a.arg = self.rn(a.arg)
        body = []
        for s in node.body:
            if isinstance(s, ast.Expr) and isinstance(s.value, ast.Constant) and isinstance(s.value.value, str):
                continue
            body.append(s)
        node.body = body
        self.generic_visit(node)
        node.body = [s for s in node.body if s is not None] or [ast.Pass()]
        return node

    def visit_Expr(self, node):
        if isinstance(node.value, ast.Call) and ast.unparse(node.value.func).startswith("logger."):
            return None
        if isinstance(node.value, ast.Constant) and isinstance(node.value.value, str):
            return None
        return self.generic_visit(node)

    def visit_Raise(self, node):
        # `raise <new exception object> from e`: how the new object is built (inline constructor, helper
        # function, message) is not part of the skeleton; `raise e` (the task's own exception) is
        self.generic_visit(node)
        if node.exc is not None and not isinstance(node.exc, ast.Name):
            node.exc = ast.Name(id="NEW_EXCEPTION", ctx=ast.Load())
        return node

    def visit_Name(self, node):
        if isinstance(node.ctx, ast.Store) or node.id in self.names:
            node.id = self.rn(node.id)
        return node

    def visit_Constant(self, node):
        if isinstance(node.value, str):
            node.value = "<str>"  # message texts are not part of the skeleton
        return node

    def visit_JoinedStr(self, node):
        return ast.Constant(value="<str>")


def normal_form(fn):
    import copy

    fn = copy.deepcopy(fn)
    n = Normalise()
    fn = n.visit(fn)
    fn.name = "f"
    ast.fix_missing_locations(fn)
    return ast.dump(fn, annotate_fields=False, include_attributes=False)


# drivers of which only the `with ParallelWorkManager(...) as pwm:` block and what follows it belong to the
# skeleton (what precedes it computes progress totals and log lines)
FROM_WITH = {("icf", "IntermediateColumnarFormatWriter.explode"), ("vcz", "VcfZarrWriter.encode_all_partitions")}


def from_with_block(fn, what):
    import copy

    idx = [i for i, s in enumerate(fn.body) if isinstance(s, ast.With) and "ParallelWorkManager" in ast.unparse(s.items[0].context_expr)]
    if len(idx) != 1:
        raise Unsupported(what + ": expected exactly one work-manager with-block")
    for s in fn.body[: idx[0]]:
        for c in ast.walk(s):
            if isinstance(c, ast.Call) and (ast.unparse(c.func).endswith(".submit") or "finalise" in ast.unparse(c.func)):
                raise Unsupported(what + ": work submitted / finalised before the with-block")
    return ast.FunctionDef(name="f", args=ast.arguments(posonlyargs=[], args=[], kwonlyargs=[], kw_defaults=[], defaults=[]),
                           body=copy.deepcopy(fn.body[idx[0]:]), decorator_list=[], returns=None, type_params=[])


def unit_forms(unit):
    trees = {}
    forms = {}
    for mod, qual in UNITS[unit]:
        if mod not in trees:
            trees[mod] = ast.parse(open(os.path.join(REPO, SRC[mod])).read())
        fn = find(trees[mod], qual)
        if (mod, qual) in FROM_WITH:
            fn = from_with_block(fn, qual)
        forms[f"{mod}:{qual}"] = hashlib.sha256(normal_form(fn).encode()).hexdigest()
    if unit == "GenWorkers":
        # plink.convert: the `with ParallelWorkManager(...) as pwm: for ...: pwm.submit(...)` block
        # and what follows it
        mod = "plink"
        if mod not in trees:
            trees[mod] = ast.parse(open(os.path.join(REPO, SRC[mod])).read())
        fn = find(trees[mod], "convert")
        idx = [i for i, s in enumerate(fn.body) if isinstance(s, ast.With)]
        if len(idx) != 1:
            raise Unsupported("plink.convert: expected exactly one with-block")
        import copy

        sub = ast.FunctionDef(name="f", args=ast.arguments(posonlyargs=[], args=[], kwonlyargs=[], kw_defaults=[], defaults=[]),
                              body=copy.deepcopy(fn.body[idx[0]:]), decorator_list=[], returns=None, type_params=[])
        forms["plink:convert[with-block..]"] = hashlib.sha256(normal_form(sub).encode()).hexdigest()
    return forms


# ------------------------------------------------------------------------------------------------
# Structural certificates for three functions of the read path: instead of one recorded normal form, the
# facts the Gallina skeleton states are checked on the AST, so that renamings, guard clauses, extracted
# check helpers and extra `if ...: raise` guards are accepted while anything that could let a damaged file
# through (a try/except, a return of something else, a missing assert) is not.
def _no_try(fn, what):
    for n in ast.walk(fn):
        if isinstance(n, (ast.Try, ast.TryStar if hasattr(ast, "TryStar") else ast.Try)):
            raise Unsupported(what + ": try/except in the read path")


def _flatten(stmts):
    for st in stmts:
        if isinstance(st, ast.Expr) and isinstance(st.value, ast.Constant):
            continue
        if isinstance(st, ast.Expr) and ast.unparse(st).startswith("logger."):
            continue
        yield st
        if isinstance(st, (ast.If, ast.With)):
            yield from _flatten(st.body)
            if isinstance(st, ast.If):
                yield from _flatten(st.orelse)


def _only_raise_guard(st):
    """if <cond>: raise ...   (possibly nested ifs / else branches, every leaf a raise)"""
    if isinstance(st, ast.Raise):
        return True
    if isinstance(st, ast.If):
        leaves = list(st.body) + list(st.orelse)
        return bool(leaves) and all(_only_raise_guard(x) for x in leaves)
    return False


def certify_read_chunk(fn):
    _no_try(fn, "read_chunk")
    if [a.arg for a in fn.args.args] != ["self", "path"]:
        raise Unsupported("read_chunk: signature")
    body = [s for s in fn.body if not (isinstance(s, ast.Expr) and (isinstance(s.value, ast.Constant) or ast.unparse(s).startswith("logger.")))]
    if not (body and isinstance(body[0], ast.With) and ast.unparse(body[0].items[0].context_expr) == "open(path, 'rb')"
            and body[0].items[0].optional_vars is not None and [ast.unparse(x) for x in body[0].body] == [f"data = {ast.unparse(body[0].items[0].optional_vars)}.read()"]):
        raise Unsupported("read_chunk: does not start by reading the whole file into `data`")
    env = {}
    for st in body[1:-1]:
        if _only_raise_guard(st):
            continue
        if isinstance(st, ast.Assign) and len(st.targets) == 1 and isinstance(st.targets[0], ast.Name) and st.targets[0].id != "data":
            env[st.targets[0].id] = ast.unparse(st.value)
            continue
        raise Unsupported("read_chunk: statement " + ast.unparse(st)[:80])
    last = body[-1]
    if not isinstance(last, ast.Return):
        raise Unsupported("read_chunk: no final return")
    r = ast.unparse(last.value)
    for k, v in env.items():
        r = r.replace(f"({k})", f"({v})")
    if r != "pickle.loads(self.compressor.decode(data))":
        raise Unsupported("read_chunk: does not return pickle.loads(self.compressor.decode(data))")


def certify_chunk_record_index(fn):
    _no_try(fn, "chunk_record_index")
    if [a.arg for a in fn.args.args] != ["self", "partition_id"]:
        raise Unsupported("chunk_record_index: signature")
    cache = "self._chunk_record_index[partition_id]"
    loaded = None
    seen = dict(open=False, a1=False, a2=False, store=False)
    paths = {}
    for st in _flatten(fn.body):
        t = ast.unparse(st)
        if isinstance(st, ast.If):
            if ast.unparse(st.test) not in ("partition_id not in self._chunk_record_index", "partition_id in self._chunk_record_index"):
                raise Unsupported("chunk_record_index: condition " + ast.unparse(st.test)[:60])
        elif isinstance(st, ast.With):
            ce = st.items[0].context_expr
            arg = ast.unparse(ce.args[0]) if isinstance(ce, ast.Call) and ce.args else ""
            arg = paths.get(arg, arg)
            if not (isinstance(ce, ast.Call) and ast.unparse(ce.func) == "open" and arg == "self.partition_path(partition_id) / 'chunk_index'"
                    and len(ce.args) == 2 and ast.unparse(ce.args[1]) == "'rb'"):
                raise Unsupported("chunk_record_index: with " + ast.unparse(ce)[:60])
            seen["open"] = True
        elif isinstance(st, ast.Assign) and isinstance(st.targets[0], ast.Name) and isinstance(st.value, ast.BinOp):
            paths[st.targets[0].id] = ast.unparse(st.value)
        elif isinstance(st, ast.Assign) and isinstance(st.targets[0], ast.Name) and ast.unparse(st.value).startswith("pickle.load("):
            loaded = st.targets[0].id
        elif isinstance(st, ast.Assert) and loaded and t == f"assert len({loaded}) > 1":
            seen["a1"] = True
        elif isinstance(st, ast.Assert) and loaded and t == f"assert {loaded}[0] == 0":
            seen["a2"] = True
        elif isinstance(st, ast.Assign) and ast.unparse(st.targets[0]) == cache and loaded and ast.unparse(st.value) == loaded:
            if not (seen["a1"] and seen["a2"]):
                raise Unsupported("chunk_record_index: index cached before its sanity asserts")
            seen["store"] = True
        elif isinstance(st, ast.Return):
            if ast.unparse(st.value) not in (cache, loaded):
                raise Unsupported("chunk_record_index: returns " + ast.unparse(st.value)[:60])
            if ast.unparse(st.value) == loaded and not (seen["a1"] and seen["a2"]):
                raise Unsupported("chunk_record_index: index returned before its sanity asserts")
        else:
            raise Unsupported("chunk_record_index: statement " + t[:80])
    if not all(seen.values()):
        raise Unsupported("chunk_record_index: missing " + ", ".join(k for k, v in seen.items() if not v))


def certify_store_init(fn):
    _no_try(fn, "IntermediateColumnarFormat.__init__")
    ok = False
    for st in fn.body:
        if isinstance(st, ast.With) and ast.unparse(st.items[0].context_expr) == "open(self.path / 'metadata.json')" and st.items[0].optional_vars is not None:
            f = ast.unparse(st.items[0].optional_vars)
            if [ast.unparse(x) for x in st.body] == [f"self.metadata = IcfMetadata.fromdict(json.load({f}))"]:
                ok = True
    if not ok:
        raise Unsupported("IntermediateColumnarFormat.__init__: metadata.json is not opened and decoded unconditionally")


CERTIFIED = {
    "icf:IntermediateColumnarFormatField.read_chunk": certify_read_chunk,
    "icf:IntermediateColumnarFormatField.chunk_record_index": certify_chunk_record_index,
    "icf:IntermediateColumnarFormat.__init__": certify_store_init,
}


def main():
    out_dir = sys.argv[1]
    record = "--record" in sys.argv
    status = {}
    for unit in UNITS:
        shape_file = os.path.join(HERE, "shapes", unit + ".nf.json")
        tmpl = os.path.join(HERE, "shapes", unit + ".v")
        path = os.path.join(out_dir, unit + ".v")
        try:
            forms = unit_forms(unit)
            if record:
                json.dump(forms, open(shape_file, "w"), indent=1, sort_keys=True)
            want = json.load(open(shape_file))
            diff = sorted(k for k in set(forms) | set(want) if forms.get(k) != want.get(k))
            # functions whose shape changed but for which a structural certificate exists
            still = []
            for k in diff:
                if k in CERTIFIED:
                    mod, qual = k.split(":")
                    CERTIFIED[k](find(ast.parse(open(os.path.join(REPO, SRC[mod])).read()), qual))
                else:
                    still.append(k)
            diff = still
            if diff:
                raise Unsupported("shape changed: " + ", ".join(diff))
            text = f"(* GENERATED by translator/workers2coq.py from {REPO}: the recognised control skeleton *)\n" + open(tmpl).read()
            status[unit] = "ok"
        except Unsupported as u:
            text = f"(* TRANSLATION FAILED (fail-closed): {u} *)\n"
            status[unit] = "unsupported: " + str(u)
        except (SyntaxError, OSError) as u:
            text = f"(* TRANSLATION FAILED (fail-closed): {type(u).__name__} *)\n"
            status[unit] = "unsupported: " + type(u).__name__ + ": " + str(u)
        old = open(path).read() if os.path.exists(path) else None
        if old != text:
            open(path, "w").write(text)
    print(json.dumps(status))


if __name__ == "__main__":
    main()
