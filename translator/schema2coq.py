#!/venv/bin/python
"""schema2coq.py -- fail-closed translator for VcfField.smallest_dtype (icf.py) and ZarrArraySpec.from_field
(vcz.py), with the shared-dimension table VcfZarrSchema.generate hands to it, to Gallina
(coq/Gen/GenSchema.v) over the record types of Model/Schema.v.  Regenerated on every run;
Bridge/BridgeSchema.v proves the generated definitions equal to Model.Schema.smallest_dtype / from_field, the
functions dims_coherent (C02), generated_schema_fits / generated_shape_fits (C10) are about.

How source expressions are read (the vocabulary of Model/Schema.v):
  num_variants, num_samples, variants_chunk_size, samples_chunk_size      g_m p, g_n p, g_vcs p, g_scs p
  vcf_field.category == "FORMAT"                                          f_cat f =? 2
  vcf_field.summary.max_number                                            s_max_number (f_sum f)
  vcf_field.full_name == "FORMAT/LAA"                                     f_is_laa f
  {"R": .., "A": .., "G": ..}.get(vcf_field.vcf_number)                   by number code (-1 R, -2 A, -3 G) -> option dim
  shared_dimension_sizes.get(name)                                        the dict literal of generate:
        "alleles": max_alleles, "alt_alleles": max_alleles - 1, "genotypes": max([.. G fields ..], default=0)
  shared_dimension_sizes is not None                                      true (generate always passes the table: checked)
  f"{vcf_field.category}_{vcf_field.name}_dim"                            DField (f_cat f) (f_id f)
  shape[-1]                                                               last shape 0
Statements of from_field: list initialisations, `.append`, `if` (also nested, locals merged by a tuple), the
assignment of the optional shared name, and the final ZarrArraySpec.new(...) whose keyword arguments must be the
locals (array_name handling -- `if array_name is None: array_name = prefix + name` -- is the caller's name
parameter).  smallest_dtype: the if/elif chain on vcf_type with its return values.
Anything else is Unsupported: the unit is emitted as a comment and the bridge stops compiling.
"""
import ast
import json
import os
import sys

REPO = os.environ.get("VERIF_REPO", "/repo")


class Unsupported(Exception):
    pass


def src(n):
    return ast.unparse(n)


def strip(body):
    out = []
    for s in body:
        if isinstance(s, ast.Expr) and isinstance(s.value, ast.Constant) and isinstance(s.value.value, str):
            continue
        if isinstance(s, ast.Expr) and isinstance(s.value, ast.Call) and src(s.value.func).split(".")[0] in ("logger", "logging", "print"):
            continue
        out.append(s)
    return out


def find(tree, qual):
    node = tree
    for name in qual.split("."):
        for n in node.body:
            if isinstance(n, (ast.FunctionDef, ast.ClassDef)) and n.name == name:
                node = n
                break
        else:
            raise Unsupported("not found: " + qual)
    return node


TYPES = {"Integer": 0, "Float": 1, "Flag": 2, "Character": 3, "String": 4}
DTYPES = {"f4": "DT_F4", "bool": "DT_BOOL", "U1": "DT_U1", "O": "DT_O", "i1": "1", "i2": "2", "i4": "4", "i8": "8"}
DIMS = {"variants": "DVariants", "samples": "DSamples", "alleles": "DAlleles", "alt_alleles": "DAltAlleles", "genotypes": "DGenotypes"}
NUMBERS = {"R": -1, "A": -2, "G": -3}
SCALARS = {"num_variants": "(g_m p)", "num_samples": "(g_n p)", "variants_chunk_size": "(g_vcs p)", "samples_chunk_size": "(g_scs p)"}


def smallest_dtype(tree):
    fn = find(tree, "VcfField.smallest_dtype")
    body = strip(fn.body)
    if len(body) != 3 or src(body[0]) != "s = self.summary" or src(body[2]) != "return ret" or not isinstance(body[1], ast.If):
        raise Unsupported("smallest_dtype: shape")

    def ret_of(stmts):
        stmts = strip(stmts)
        if len(stmts) == 1 and isinstance(stmts[0], ast.Assign) and src(stmts[0].targets[0]) == "ret":
            v = stmts[0].value
            if isinstance(v, ast.Constant) and v.value in DTYPES:
                return f"Ok {DTYPES[v.value]}"
            if src(v) == "core.min_int_dtype(s.min_value, s.max_value)":
                return "MININT"
        if len(stmts) == 1 and isinstance(stmts[0], ast.If) and src(stmts[0].test) == "not math.isfinite(s.max_value)":
            a, b = ret_of(stmts[0].body), ret_of(stmts[0].orelse)
            if b == "MININT" and a.startswith("Ok "):
                return f"match s_bounds (f_sum f) with None => {a} | Some (lo, hi) => min_int_dtype lo hi end"
        raise Unsupported("smallest_dtype branch: " + " ; ".join(src(x) for x in stmts)[:120])

    arms = []
    cur = body[1]
    while True:
        t = src(cur.test)
        pre = "self.vcf_type == "
        if not t.startswith(pre):
            raise Unsupported("smallest_dtype test: " + t)
        ty = ast.literal_eval(t[len(pre):])
        arms.append((TYPES[ty], ret_of(cur.body)))
        if len(cur.orelse) == 1 and isinstance(cur.orelse[0], ast.If):
            cur = cur.orelse[0]
            continue
        e = strip(cur.orelse)
        if e and isinstance(e[0], ast.Assert) and src(e[0].test).startswith("self.vcf_type == "):
            ty = ast.literal_eval(src(e[0].test)[len(pre):])
            arms.append((TYPES[ty], ret_of(e[1:])))
            arms.append((None, "Err E_AssertionError"))
        else:
            arms.append((None, ret_of(e)))
        break
    out = "Definition gen_smallest_dtype (f : vfield) : res Z :=\n"
    for ty, r in arms:
        if ty is None:
            out += f"  {r}.\n"
        else:
            out += f"  if f_type f =? {ty} then {r}\n  else "
    return out


class FF:
    """from_field: a small symbolic walk; tracked locals: shape, chunks, dimensions (lists), shared_name (option dim)"""
    VARS = ("shape", "chunks", "dimensions", "shared_name")

    def __init__(self, sizes):
        self.sizes = sizes
        self.n = 0

    def scalar(self, e):
        t = src(e)
        if t in SCALARS:
            return SCALARS[t]
        if t == "vcf_field.summary.max_number":
            return "(s_max_number (f_sum f))"
        if t == "shape[-1]":
            return "(last shape 0)"
        if isinstance(e, ast.Constant) and isinstance(e.value, int):
            return str(e.value)
        raise Unsupported("scalar: " + t)

    def cond(self, e):
        t = src(e)
        if isinstance(e, ast.BoolOp):
            op = "||" if isinstance(e.op, ast.Or) else "&&"
            return "(" + f" {op} ".join(self.cond(v) for v in e.values) + ")"
        if t == "vcf_field.category == 'FORMAT'":
            return "(f_cat f =? 2)"
        if t == "vcf_field.full_name == 'FORMAT/LAA'":
            return "(f_is_laa f)"
        if t == "shared_dimension_sizes is not None":
            return "true"
        if t == "shared_name is None":
            return "(match shared_name with Some _ => false | None => true end)"
        if t == "shared_name is not None":
            return "(match shared_name with Some _ => true | None => false end)"
        if t == "shared_dimension_sizes.get(shared_name) != shape[-1]":
            return "(match shared_name with Some d => negb (gen_shared_size p d =? last shape 0) | None => true end)"
        if isinstance(e, ast.Compare) and len(e.ops) == 1 and isinstance(e.ops[0], (ast.Gt, ast.Lt, ast.GtE, ast.LtE)):
            a, b = self.scalar(e.left), self.scalar(e.comparators[0])
            return {ast.Gt: f"({b} <? {a})", ast.Lt: f"({a} <? {b})", ast.GtE: f"({b} <=? {a})", ast.LtE: f"({a} <=? {b})"}[type(e.ops[0])]
        raise Unsupported("condition: " + t)

    def tup(self):
        return "(shape, chunks, dimensions, shared_name)"

    def block(self, stmts, k):
        stmts = strip(stmts)
        if not stmts:
            return k
        st, rest = stmts[0], stmts[1:]
        t = src(st)
        if isinstance(st, ast.Assign) and len(st.targets) == 1 and isinstance(st.targets[0], ast.Name):
            x, v = st.targets[0].id, st.value
            if x in ("shape", "chunks") and isinstance(v, ast.List) and len(v.elts) == 1:
                return f"let {x} := [{self.scalar(v.elts[0])}] in\n  " + self.block(rest, k)
            if x == "dimensions" and isinstance(v, ast.List) and len(v.elts) == 1 and isinstance(v.elts[0], ast.Constant) and v.elts[0].value in DIMS:
                return f"let dimensions := [{DIMS[v.elts[0].value]}] in\n  " + self.block(rest, k)
            if x == "prefix" and isinstance(v, ast.Constant):
                return self.block(rest, k)          # only used for the default array name (the caller's name parameter)
            if x == "shared_name":
                if isinstance(v, ast.Constant) and v.value is None:
                    return "let shared_name := @None dim in\n  " + self.block(rest, k)
                if isinstance(v, ast.Call) and isinstance(v.func, ast.Attribute) and v.func.attr == "get" and isinstance(v.func.value, ast.Dict) \
                        and len(v.args) == 1 and src(v.args[0]) == "vcf_field.vcf_number":
                    d = v.func.value
                    arms = ""
                    for kk, vv in zip(d.keys, d.values):
                        if not (isinstance(kk, ast.Constant) and kk.value in NUMBERS and isinstance(vv, ast.Constant) and vv.value in DIMS):
                            raise Unsupported("shared name table: " + src(d))
                        arms += f"if f_number f =? {NUMBERS[kk.value]} then Some {DIMS[vv.value]} else "
                    return f"let shared_name := {arms}@None dim in\n  " + self.block(rest, k)
            raise Unsupported("from_field assignment: " + t[:100])
        if isinstance(st, ast.Expr) and isinstance(st.value, ast.Call) and isinstance(st.value.func, ast.Attribute) and st.value.func.attr == "append" \
                and len(st.value.args) == 1 and src(st.value.func.value) in ("shape", "chunks", "dimensions"):
            x, a = src(st.value.func.value), st.value.args[0]
            if x == "dimensions":
                if isinstance(a, ast.Constant) and a.value in DIMS:
                    term = DIMS[a.value]
                elif src(a) == "shared_name":
                    term = "(match shared_name with Some d => d | None => DVariants end)"      # only reached under `shared_name is not None`
                elif isinstance(a, ast.JoinedStr) and src(a) == "f'{vcf_field.category}_{vcf_field.name}_dim'":
                    term = "(DField (f_cat f) (f_id f))"
                else:
                    raise Unsupported("dimension name: " + src(a))
            else:
                term = self.scalar(a)
            return f"let {x} := {x} ++ [{term}] in\n  " + self.block(rest, k)
        if isinstance(st, ast.If):
            if src(st.test) == "array_name is None":
                return self.block(rest, k)          # default name = prefix + field name: the caller's name parameter
            c = self.cond(st.test)
            a = self.block(st.body, self.tup())
            b = self.block(st.orelse, self.tup())
            return f"let '{self.tup()} := (if {c}\n   then {a}\n   else {b}) in\n  " + self.block(rest, k)
        if isinstance(st, ast.Return):
            if rest:
                raise Unsupported("code after return")
            c = st.value
            if not (isinstance(c, ast.Call) and src(c.func) == "ZarrArraySpec.new" and not c.args):
                raise Unsupported("return: " + t[:100])
            kw = {x.arg: src(x.value) for x in c.keywords}
            want = {"vcf_field": "vcf_field.full_name", "name": "array_name", "dtype": "vcf_field.smallest_dtype()", "shape": "shape",
                    "chunks": "chunks", "dimensions": "dimensions", "description": "vcf_field.description"}
            if kw != want:
                raise Unsupported("ZarrArraySpec.new arguments: " + str(kw)[:200])
            return ("bind (gen_smallest_dtype f) (fun dt =>\n  Ok {| sp_name := name; sp_dtype := dt; sp_shape := shape; sp_chunks := chunks; sp_dims := dimensions;\n"
                    "        sp_field := Some (f_cat f, f_id f) |})")
        raise Unsupported("from_field statement: " + t[:100])


def sizes_table(tree):
    gen = find(tree, "VcfZarrSchema.generate")
    table = None
    passes = False
    max_alleles_ok = False
    for st in ast.walk(gen):
        if isinstance(st, ast.Assign) and src(st.targets[0]) == "shared_dimension_sizes" and isinstance(st.value, ast.Dict):
            table = st.value
        if isinstance(st, ast.keyword) and st.arg == "shared_dimension_sizes" and src(st.value) == "shared_dimension_sizes":
            passes = True
        if isinstance(st, ast.Assign) and src(st) == "max_alleles = alt_field.vcf_field.summary.max_number + 1":
            max_alleles_ok = True
    if table is None or not passes or not max_alleles_ok:
        raise Unsupported("generate: shared dimension table / its hand-over / max_alleles not found")
    arms = []
    for k, v in zip(table.keys, table.values):
        if not (isinstance(k, ast.Constant) and k.value in ("alleles", "alt_alleles", "genotypes")):
            raise Unsupported("shared dimension table key: " + src(k))
        t = src(v)
        if t == "max_alleles":
            term = "g_max_alleles p"
        elif t == "max_alleles - 1":
            term = "g_max_alleles p - 1"
        elif t.replace(" ", "").replace("\n", "") == "max([field.summary.max_numberforfieldinicf.metadata.fieldsiffield.vcf_number=='G'],default=0)":
            term = "g_gsize p"
        else:
            raise Unsupported("shared dimension size: " + t[:100])
        arms.append(f"  | {DIMS[k.value]} => {term}")
    if len(arms) != 3:
        raise Unsupported("shared dimension table has %d entries" % len(arms))
    return "Definition gen_shared_size (p : gen_params) (d : dim) : Z :=\n  match d with\n" + "\n".join(arms) + "\n  | _ => -1\n  end.\n"


def from_field(tree):
    fn = find(tree, "ZarrArraySpec.from_field")
    a = fn.args
    if [x.arg for x in a.args] != ["vcf_field"] or [x.arg for x in a.kwonlyargs] != ["num_variants", "num_samples", "variants_chunk_size", "samples_chunk_size", "array_name", "shared_dimension_sizes"]:
        raise Unsupported("from_field signature")
    body = FF(None).block(fn.body, "Err E_Other")
    return "Definition gen_from_field (p : gen_params) (f : vfield) (name : aname) : res spec :=\n  let shared_name := @None dim in\n  " + body + ".\n"


FIXED = {"variant_contig": 0, "variant_filter": 1, "variant_allele": 2, "variant_id": 3, "variant_id_mask": 4, "variant_quality": 5,
         "variant_position": 6, "variant_length": 7, "call_genotype_phased": 8, "call_genotype": 9, "call_genotype_mask": 10}
GSCAL = {"m": "g_m p", "n": "g_n p", "variants_chunk_size": "g_vcs p", "samples_chunk_size": "g_scs p", "icf.metadata.num_contigs": "g_num_contigs p",
         "icf.metadata.num_filters": "g_num_filters p", "max_alleles": "g_max_alleles p", "ploidy": "ploidy"}
GDIMS = dict(DIMS, filters="DFilters", ploidy="DPloidy")


def glist(e, what):
    if not isinstance(e, (ast.List, ast.Tuple)):
        raise Unsupported(f"{what}: not a literal sequence: " + src(e))
    out = []
    for x in e.elts:
        if what == "dims":
            if not (isinstance(x, ast.Constant) and x.value in GDIMS):
                raise Unsupported("dimension: " + src(x))
            out.append(GDIMS[x.value])
        else:
            t = src(x)
            if t not in GSCAL:
                raise Unsupported(f"{what} entry: " + t)
            out.append(GSCAL[t])
    return "[" + "; ".join(out) + "]"


def generate(tree):
    """VcfZarrSchema.generate: the list of array specifications, in order"""
    gen = find(tree, "VcfZarrSchema.generate")
    body = strip(gen.body)
    t = [src(x) for x in body]
    # the helpers: fixed_field_spec's defaults and spec_from_field's hand-over
    ffs = next((x for x in body if isinstance(x, ast.FunctionDef) and x.name == "fixed_field_spec"), None)
    sff = next((x for x in body if isinstance(x, ast.FunctionDef) and x.name == "spec_from_field"), None)
    if ffs is None or sff is None:
        raise Unsupported("generate: helper functions")
    d = {a.arg: src(v) for a, v in zip(ffs.args.args[-len(ffs.args.defaults):], ffs.args.defaults)}
    if d != {"vcf_field": "None", "shape": "(m,)", "dimensions": "('variants',)", "chunks": "None"}:
        raise Unsupported("fixed_field_spec defaults: " + str(d))
    fb = strip(ffs.body)
    if len(fb) != 1 or src(fb[0]).replace(" ", "") != "returnZarrArraySpec.new(vcf_field=vcf_field,name=name,dtype=dtype,shape=shape,description='',dimensions=dimensions,chunks=chunksor[variants_chunk_size])":
        raise Unsupported("fixed_field_spec body: " + src(fb[0])[:160])
    sb = strip(sff.body)
    want = "returnZarrArraySpec.from_field(field,num_samples=n,num_variants=m,samples_chunk_size=samples_chunk_size,variants_chunk_size=variants_chunk_size,array_name=array_name,shared_dimension_sizes=shared_dimension_sizes)"
    if len(sb) != 1 or src(sb[0]).replace(" ", "") != want:
        raise Unsupported("spec_from_field body")
    if "m = icf.num_records" not in t or "n = icf.num_samples" not in t:
        raise Unsupported("generate: m / n")

    def fixed_call(c):
        kw = {k.arg: k.value for k in c.keywords}
        if c.args or not set(kw) <= {"name", "dtype", "shape", "dimensions", "chunks"} or "name" not in kw or "dtype" not in kw:
            raise Unsupported("fixed_field_spec call: " + src(c)[:100])
        nm = kw["name"].value
        if nm not in FIXED:
            raise Unsupported("unknown fixed array: " + str(nm))
        dt = kw["dtype"]
        if isinstance(dt, ast.Constant) and dt.value in DTYPES:
            dts = DTYPES[dt.value]
        elif src(dt) == "core.min_int_dtype(0, icf.metadata.num_contigs)":
            dts = "cdt"
        else:
            raise Unsupported("fixed dtype: " + src(dt))
        shape = glist(kw["shape"], "shape") if "shape" in kw else "[g_m p]"
        dims = glist(kw["dimensions"], "dims") if "dimensions" in kw else "[DVariants]"
        chunks = glist(kw["chunks"], "chunks") if "chunks" in kw else "[g_vcs p]"
        return f"fixed_spec p {FIXED[nm]} {dts} {shape} {chunks} {dims}"

    acc = None
    parts = []          # Coq terms of type res (list spec), concatenated in order
    i = 0
    stmts = [x for x in body if not isinstance(x, ast.FunctionDef)]
    seen_gt_loop = seen_gt_block = False
    ret_ok = False
    for st in stmts:
        tt = src(st)
        if isinstance(st, ast.Assign) and isinstance(st.value, ast.List) and st.value.elts and all(isinstance(e, ast.Call) and src(e.func) == "fixed_field_spec" for e in st.value.elts):
            acc = src(st.targets[0])
            parts.append("Ok [" + ";\n      ".join(fixed_call(e) for e in st.value.elts) + "]")
            continue
        if acc and isinstance(st, ast.Expr) and isinstance(st.value, ast.Call) and src(st.value.func) == f"{acc}.extend" and len(st.value.args) == 1:
            a = st.value.args[0]
            if isinstance(a, ast.List) and all(isinstance(e, ast.Call) and src(e.func) == "spec_from_field" for e in a.elts):
                for e in a.elts:
                    kw = {k.arg: k.value for k in e.keywords}
                    f0 = src(e.args[0])
                    fld = {"name_map['QUAL']": "qual", "name_map['POS']": "pos", "name_map['rlen']": "rlen"}.get(f0)
                    if fld is None or set(kw) != {"array_name"} or kw["array_name"].value not in FIXED:
                        raise Unsupported("fixed field spec: " + src(e)[:100])
                    parts.append(f"bind (gen_from_field p {fld} (AFixed {FIXED[kw['array_name'].value]})) (fun x => Ok [x])")
                continue
            if src(a) == "[spec_from_field(field) for field in icf.metadata.info_fields]":
                parts.append("mapM (fun f => gen_from_field p f (field_name f)) infos")
                continue
            raise Unsupported("extend: " + tt[:100])
        if acc and isinstance(st, ast.For) and src(st.iter) == "icf.metadata.format_fields":
            b = strip(st.body)
            v = st.target.id
            ok = False
            if len(b) == 2 and isinstance(b[0], ast.If) and src(b[0].test) == f"{v}.name == 'GT'" and not b[0].orelse \
                    and [src(x) for x in strip(b[0].body)] == [f"gt_field = {v}", "continue"] and src(b[1]) == f"{acc}.append(spec_from_field({v}))":
                ok = True
            if len(b) == 1 and isinstance(b[0], ast.If) and src(b[0].test) == f"{v}.name == 'GT'" \
                    and [src(x) for x in strip(b[0].body)] == [f"gt_field = {v}"] and [src(x) for x in strip(b[0].orelse)] == [f"{acc}.append(spec_from_field({v}))"]:
                ok = True
            if not ok:
                raise Unsupported("FORMAT loop: " + tt[:120])
            seen_gt_loop = True
            parts.append("mapM (fun f => gen_from_field p f (field_name f)) formats")
            continue
        if acc and isinstance(st, ast.If) and src(st.test) == "gt_field is not None" and not st.orelse:
            gb = strip(st.body)
            gt = [src(x) for x in gb]
            if gt[:4] != ["ploidy = max(gt_field.summary.max_number - 1, 1)", "shape = [m, n]", "chunks = [variants_chunk_size, samples_chunk_size]", "dimensions = ['variants', 'samples']"]:
                raise Unsupported("GT block prologue: " + " | ".join(gt[:4])[:200])
            cur = dict(shape="[g_m p; g_n p]", chunks="[g_vcs p; g_scs p]", dims="[DVariants; DSamples]")
            specs = []
            for x in gb[4:]:
                xt = src(x)
                if xt == "shape += [ploidy]":
                    cur["shape"] = cur["shape"] + " ++ [ploidy]"
                elif xt == "chunks += [ploidy]":
                    cur["chunks"] = cur["chunks"] + " ++ [ploidy]"
                elif xt == "dimensions += ['ploidy']":
                    cur["dims"] = cur["dims"] + " ++ [DPloidy]"
                elif isinstance(x, ast.Expr) and isinstance(x.value, ast.Call) and src(x.value.func) == f"{acc}.append" and isinstance(x.value.args[0], ast.Call) \
                        and src(x.value.args[0].func) == "ZarrArraySpec.new":
                    kw = {k.arg: src(k.value) for k in x.value.args[0].keywords}
                    if kw.get("vcf_field") != "None" or kw.get("shape") != "list(shape)" or kw.get("chunks") != "list(chunks)" or kw.get("dimensions") != "list(dimensions)":
                        raise Unsupported("GT array: " + xt[:120])
                    nm = ast.literal_eval(kw["name"])
                    dt = "gdt" if kw["dtype"] == "gt_field.smallest_dtype()" else DTYPES.get(ast.literal_eval(kw["dtype"]))
                    if nm not in FIXED or dt is None:
                        raise Unsupported("GT array name / dtype: " + xt[:120])
                    specs.append(f"fixed_spec p {FIXED[nm]} {dt} ({cur['shape']}) ({cur['chunks']}) ({cur['dims']})")
                else:
                    raise Unsupported("GT block: " + xt[:100])
            seen_gt_block = True
            parts.append("match gt with\n    | None => Ok []\n    | Some g => bind (gen_smallest_dtype g) (fun gdt =>\n        let ploidy := Z.max (s_max_number (f_sum g) - 1) 1 in\n        Ok ["
                         + ";\n            ".join(specs) + "])\n    end")
            continue
        if isinstance(st, ast.Return):
            kw = {k.arg: src(k.value) for k in st.value.keywords} if isinstance(st.value, ast.Call) and src(st.value.func) == "VcfZarrSchema" else {}
            if kw.get("fields") != acc:
                raise Unsupported("return: " + tt[:100])
            ret_ok = True
            continue
        # everything else must not touch the accumulator
        if acc and acc in {n.id for n in ast.walk(st) if isinstance(n, ast.Name)}:
            raise Unsupported("statement on the array list: " + tt[:100])
    if not (acc and seen_gt_loop and seen_gt_block and ret_ok):
        raise Unsupported("generate: incomplete")
    term = "Ok []"
    out = "Definition gen_generate (p : gen_params) (qual pos rlen : vfield) (infos formats : list vfield) (gt : option vfield) : res (list spec) :=\n"
    out += "  bind (min_int_dtype 0 (g_num_contigs p)) (fun cdt =>\n"
    names = []
    for k, part in enumerate(parts):
        out += f"  bind ({part}) (fun part{k} =>\n"
        names.append(f"part{k}")
    out += "  Ok (" + " ++ ".join(names) + "))" + ")" * len(parts) + ".\n"
    return out


def main():
    out_dir = sys.argv[1]
    path = os.path.join(out_dir, "GenSchema.v")
    try:
        icf = ast.parse(open(os.path.join(REPO, "bio2zarr/vcf2zarr/icf.py")).read())
        vcz = ast.parse(open(os.path.join(REPO, "bio2zarr/vcf2zarr/vcz.py")).read())
        text = (f"(* GENERATED by translator/schema2coq.py from {REPO}/bio2zarr/vcf2zarr/icf.py (smallest_dtype) and vcz.py (from_field, generate's shared dimension table) *)\n"
                "From Coq Require Import ZArith List Bool.\nFrom B2Z Require Import Base.Prims Model.Schema.\nImport ListNotations.\nOpen Scope Z_scope.\n\n"
                + smallest_dtype(icf) + "\n" + sizes_table(vcz) + "\n" + from_field(vcz) + "\n" + generate(vcz))
        status = "ok"
    except Unsupported as u:
        text = f"(* TRANSLATION FAILED (fail-closed): {u} *)\n"
        status = "unsupported: " + str(u)
    except (SyntaxError, OSError, KeyError, ValueError) as u:
        text = f"(* TRANSLATION FAILED (fail-closed): {type(u).__name__} *)\n"
        status = "unsupported: " + type(u).__name__ + ": " + str(u)
    old = open(path).read() if os.path.exists(path) else None
    if old != text:
        open(path, "w").write(text)
    print(json.dumps({"GenSchema": status}))


if __name__ == "__main__":
    main()
