#!/venv/bin/python
"""icfw2coq.py -- fail-closed translator for vcf2zarr/icf.py's IcfFieldWriter (the buffered column
writer of the intermediate store: append / write_chunk / flush) and for the index arithmetic at the
head of IntermediateColumnarFormatField.iter_values, to Gallina (coq/Gen/GenIcfWriter.v).

The writer is a state machine over (buff, buffered_bytes, chunk_index, num_records) and two summary
counters; its effects are the chunk file it writes (named by the running record count, holding the
buffered values) and the chunk_index file.  Each method becomes a pure function
state -> state * list event.  The value type is a parameter (the model is generic in it), and the
size sys.getsizeof reports for a value is an input of `append`, so the theorems hold for any size
function.  Statement forms accepted (anything else: Unsupported, unit not emitted, the bridge stops
compiling):

  val = self.transformer.transform_and_update_bounds(val)   the stored value IS the transformed value
  assert val is None or isinstance(val, np.ndarray)          type check, no effect on the state
  self.buff.append(val) / self.buff.clear()                 list field update
  self.chunk_index.append(e)                                list field update
  x = sys.getsizeof(val)                                    local := the size input
  self.f = e / self.f += e                                  integer field update
  self.vcf_field.summary.{num_chunks,uncompressed_size} += e   summary counters
  self.vcf_field.summary.compressed_size += len(compressed) depends on the codec: not modelled, skipped
  path = self.path / f"{e}"                                 local := chunk name e
  pkl = pickle.dumps(self.buff); compressed = self.compressor.encode(pkl)
                                                            locals := the buffered values (the codec and
                                                            pickle are a lossless pair: C18 / C08 drivers)
  with open(path, "wb") as f: f.write(compressed)           event WriteChunk name content
  with open(self.path / "chunk_index", "wb") as f:
      a = np.array(self.chunk_index, dtype=int); pickle.dump(a, f)
                                                            event WriteIndex chunk_index
  if c: ... [else: ...]; self.m(); logger.* and docstrings ignored

The read side (iter_values, chunks, values) is not translated but *matched*, statement by statement,
against the one shape whose meaning is written out as `iter_head` / `chunk_names` below and which
the model's iter_values / scan1 / scan2 mirror (head: the two searchsorted(side="right") - 1
look-ups, offset, chunk_offset, record_id; first partition: stop test, then `>= start` test; later
partitions: stop test only).  Any other shape is Unsupported.
"""
import ast
import json
import os
import sys

REPO = os.environ.get("VERIF_REPO", "/repo")


class Unsupported(Exception):
    pass


def src(n):
    return ast.unparse(n)


def find(tree, qual):
    node = tree
    for name in qual.split("."):
        for n in node.body:
            if isinstance(n, (ast.FunctionDef, ast.ClassDef)) and n.name == name:
                node = n
                break
        else:
            raise Unsupported("not found: " + qual)
    return node


def strip(body):
    out = []
    for s in body:
        if isinstance(s, ast.Expr) and isinstance(s.value, ast.Constant) and isinstance(s.value.value, str):
            continue
        if isinstance(s, ast.Expr) and isinstance(s.value, ast.Call) and src(s.value.func).startswith("logger."):
            continue
        out.append(s)
    return out


INT_FIELDS = ("buffered_bytes", "num_records")
LIST_FIELDS = ("buff", "chunk_index")
SUMMARY = {"num_chunks": "sum_num_chunks", "uncompressed_size": "sum_uncompressed"}
BIN = {ast.Add: "+", ast.Sub: "-", ast.Mult: "*"}
CMP = {ast.Eq: "=?", ast.Lt: "<?", ast.LtE: "<=?", ast.Gt: ">?", ast.GtE: ">=?"}


class Writer:
    def __init__(self, cls):
        self.methods = {n.name: n for n in cls.body if isinstance(n, ast.FunctionDef)}
        self.defaults = {}
        for n in cls.body:
            if isinstance(n, ast.AnnAssign) and isinstance(n.target, ast.Name) and n.value is not None:
                self.defaults[n.target.id] = src(n.value)

    # -- expressions --------------------------------------------------------------------------
    def expr(self, e, locs):
        if isinstance(e, ast.Constant) and isinstance(e.value, int) and not isinstance(e.value, bool):
            return f"({e.value})" if e.value < 0 else str(e.value)
        if isinstance(e, ast.Name) and locs.get(e.id) == "Z":
            return e.id
        if isinstance(e, ast.Attribute) and src(e.value) == "self":
            if e.attr in INT_FIELDS:
                return f"({e.attr} s)"
            if e.attr == "max_buffered_bytes":
                return "thr"
        if isinstance(e, ast.Call) and src(e.func) == "len" and len(e.args) == 1 and src(e.args[0]) == "self.buff":
            return "(Z.of_nat (length (buff s)))"
        if isinstance(e, ast.BinOp) and type(e.op) in BIN:
            return f"({self.expr(e.left, locs)} {BIN[type(e.op)]} {self.expr(e.right, locs)})"
        raise Unsupported("expression: " + src(e))

    def cond(self, e, locs):
        if isinstance(e, ast.Compare) and len(e.ops) == 1 and type(e.ops[0]) in CMP:
            return f"({self.expr(e.left, locs)} {CMP[type(e.ops[0])]} {self.expr(e.comparators[0], locs)})"
        raise Unsupported("condition: " + src(e))

    # -- statements ---------------------------------------------------------------------------
    def block(self, stmts, locs, value_in_scope):
        """Coq term for `stmts`; free names s, ev; ends in (s, ev)"""
        stmts = strip(stmts)
        if not stmts:
            return "(s, ev)"
        st, rest = stmts[0], stmts[1:]
        go = lambda l=locs: self.block(rest, l, value_in_scope)  # noqa: E731
        t = src(st)
        if t == "val = self.transformer.transform_and_update_bounds(val)" and value_in_scope:
            return go()
        if t == "assert val is None or isinstance(val, np.ndarray)" and value_in_scope:
            return go()
        if t == "self.buff.append(val)" and value_in_scope:
            return "let s := set_buff s (buff s ++ [val]) in\n  " + go()
        if t == "self.buff.clear()":
            return "let s := set_buff s [] in\n  " + go()
        if isinstance(st, ast.Expr) and isinstance(st.value, ast.Call) and src(st.value.func) == "self.chunk_index.append" \
                and len(st.value.args) == 1 and not st.value.keywords:
            return f"let s := set_chunk_index s (chunk_index s ++ [{self.expr(st.value.args[0], locs)}]) in\n  " + go()
        if isinstance(st, ast.Assign) and len(st.targets) == 1 and isinstance(st.targets[0], ast.Name):
            x, v = st.targets[0].id, st.value
            if x in ("s", "ev", "thr", "val", "val_size"):
                raise Unsupported("local name clashes with the translation: " + x)
            if src(v) == "sys.getsizeof(val)" and value_in_scope:
                return f"let {x} := val_size in\n  " + self.block(rest, {**locs, x: "Z"}, value_in_scope)
            if isinstance(v, ast.BinOp) and isinstance(v.op, ast.Div) and src(v.left) == "self.path" and isinstance(v.right, ast.JoinedStr) \
                    and len(v.right.values) == 1 and isinstance(v.right.values[0], ast.FormattedValue) and v.right.values[0].format_spec is None \
                    and v.right.values[0].conversion == -1:
                return f"let {x} := {self.expr(v.right.values[0].value, locs)} in\n  " + self.block(rest, {**locs, x: "name"}, value_in_scope)
            if src(v) == "pickle.dumps(self.buff)":
                return f"let {x} := buff s in\n  " + self.block(rest, {**locs, x: "pickled"}, value_in_scope)
            if isinstance(v, ast.Call) and src(v.func) == "self.compressor.encode" and len(v.args) == 1 and isinstance(v.args[0], ast.Name) \
                    and locs.get(v.args[0].id) == "pickled":
                return f"let {x} := {v.args[0].id} in\n  " + self.block(rest, {**locs, x: "compressed"}, value_in_scope)
            return f"let {x} := {self.expr(v, locs)} in\n  " + self.block(rest, {**locs, x: "Z"}, value_in_scope)
        if isinstance(st, ast.Assign) and len(st.targets) == 1 and isinstance(st.targets[0], ast.Attribute) and src(st.targets[0].value) == "self" \
                and st.targets[0].attr in INT_FIELDS:
            return f"let s := set_{st.targets[0].attr} s {self.expr(st.value, locs)} in\n  " + go()
        if isinstance(st, ast.AugAssign) and isinstance(st.op, ast.Add) and isinstance(st.target, ast.Attribute):
            tgt = st.target
            if src(tgt.value) == "self" and tgt.attr in INT_FIELDS:
                return f"let s := set_{tgt.attr} s (({tgt.attr} s) + {self.expr(st.value, locs)}) in\n  " + go()
            if src(tgt.value) == "self.vcf_field.summary":
                if tgt.attr in SUMMARY:
                    f = SUMMARY[tgt.attr]
                    return f"let s := set_{f} s (({f} s) + {self.expr(st.value, locs)}) in\n  " + go()
                if tgt.attr == "compressed_size" and isinstance(st.value, ast.Call) and src(st.value.func) == "len" \
                        and isinstance(st.value.args[0], ast.Name) and locs.get(st.value.args[0].id) == "compressed":
                    return go()
        if isinstance(st, ast.Expr) and isinstance(st.value, ast.Call) and src(st.value.func).startswith("self.") \
                and not st.value.args and not st.value.keywords:
            m = src(st.value.func)[5:]
            if m not in ("write_chunk",):
                raise Unsupported("call: " + t)
            return f"let '(s, ev1) := {m} s in let ev := ev ++ ev1 in\n  " + go()
        if isinstance(st, ast.With) and len(st.items) == 1 and isinstance(st.items[0].optional_vars, ast.Name):
            f = st.items[0].optional_vars.id
            c = st.items[0].context_expr
            body = strip(st.body)
            if isinstance(c, ast.Call) and src(c.func) == "open" and len(c.args) == 2 and src(c.args[1]) == "'wb'" and not c.keywords:
                if isinstance(c.args[0], ast.Name) and locs.get(c.args[0].id) == "name" and len(body) == 1:
                    w = body[0]
                    if isinstance(w, ast.Expr) and isinstance(w.value, ast.Call) and src(w.value.func) == f"{f}.write" and len(w.value.args) == 1 \
                            and isinstance(w.value.args[0], ast.Name) and locs.get(w.value.args[0].id) == "compressed":
                        return f"let ev := ev ++ [WriteChunk {c.args[0].id} {w.value.args[0].id}] in\n  " + go()
                if src(c.args[0]) == "self.path / 'chunk_index'" and len(body) == 2:
                    a, d = body
                    if isinstance(a, ast.Assign) and isinstance(a.targets[0], ast.Name) and src(a.value) == "np.array(self.chunk_index, dtype=int)" \
                            and src(d) == f"pickle.dump({a.targets[0].id}, {f})":
                        return "let ev := ev ++ [WriteIndex (chunk_index s)] in\n  " + go()
            raise Unsupported("with block: " + t[:160])
        if isinstance(st, ast.If):
            c = self.cond(st.test, locs)
            for b in (st.body, st.orelse):
                for x in ast.walk(ast.Module(body=list(b), type_ignores=[])):
                    if isinstance(x, ast.Return):
                        raise Unsupported("return inside a conditional")
                    if isinstance(x, ast.Assign) and isinstance(x.targets[0], ast.Name):
                        raise Unsupported("local assigned inside a conditional")
            then = self.block(st.body, locs, value_in_scope)
            els = self.block(st.orelse, locs, value_in_scope)
            return f"let '(s, ev) := (if {c} then\n  {then}\n  else {els}) in\n  " + go()
        raise Unsupported("statement: " + t[:140])

    def method(self, name, params):
        fn = self.methods.get(name)
        if fn is None:
            raise Unsupported("no method " + name)
        if [a.arg for a in fn.args.args] != ["self"] + params:
            raise Unsupported(name + ": parameters")
        body = self.block(fn.body, {}, bool(params))
        sig = "(thr : Z) (s : wstate) (val : A) (val_size : Z)" if params else "(s : wstate)"
        if not params and "thr" in body:
            raise Unsupported(name + " reads the threshold")
        return f"Definition {name} {sig} : wstate * list wevent :=\n  let ev := @nil wevent in\n  {body}.\n"

    def init(self):
        want = {"buff": "dataclasses.field(default_factory=list)", "buffered_bytes": "0",
                "chunk_index": "dataclasses.field(default_factory=lambda: [0])", "num_records": "0"}
        got = {k: self.defaults.get(k) for k in want}
        if got != want:
            raise Unsupported("dataclass defaults: " + repr(got))
        return ("(* the dataclass defaults *)\n"
                "Definition winit : wstate := {| buff := []; buffered_bytes := 0; chunk_index := [0]; num_records := 0;\n"
                "                                sum_num_chunks := 0; sum_uncompressed := 0 |}.\n")


def partition_writer(tree):
    """IcfPartitionWriter: append(name, value) forwards to the field's writer; __exit__ flushes every field
    writer iff no exception is in flight and never swallows one; the threshold is column_chunk_size * 2**20"""
    cls = find(tree, "IcfPartitionWriter")
    ap = find(cls, "append")
    if [a.arg for a in ap.args.args] != ["self", "name", "value"] or [src(s) for s in strip(ap.body)] != ["self.field_writers[name].append(value)"]:
        raise Unsupported("IcfPartitionWriter.append shape")
    ex = find(cls, "__exit__")
    want = ["if exc_type is None:\n    for field in self.field_writers.values():\n        field.flush()", "return False"]
    if [src(s) for s in strip(ex.body)] != want:
        raise Unsupported("IcfPartitionWriter.__exit__ shape")
    ini = [src(s) for s in strip(find(cls, "__init__").body)]
    if "max_buffered_bytes = icf_metadata.column_chunk_size * 2 ** 20" not in ini or "assert max_buffered_bytes > 0" not in ini:
        raise Unsupported("IcfPartitionWriter.__init__: threshold")
    mk = [src(n) for n in ast.walk(find(cls, "__init__")) if isinstance(n, ast.Assign) and "IcfFieldWriter(" in src(n.value)]
    if len(mk) != 1 or mk[0].replace(" ", "").replace("\n", "") != \
            "self.field_writers[vcf_field.full_name]=IcfFieldWriter(vcf_field,field_partition_path,transformer,compressor,max_buffered_bytes)":
        raise Unsupported("IcfPartitionWriter.__init__: writer construction: " + repr(mk)[:200])
    return ("(* IcfPartitionWriter: one writer per field, constructed with the dataclass defaults and the threshold\n"
            "   column_chunk_size * 2**20 > 0; append forwards; __exit__ flushes every writer iff no exception *)\n"
            "Definition flush_on_exit (exc_in_flight : bool) : bool := negb exc_in_flight.\n")


# ---- reader head ---------------------------------------------------------------------------------
def reader(tree):
    cls = find(tree, "IntermediateColumnarFormatField")
    fn = find(cls, "iter_values")
    if [a.arg for a in fn.args.args] != ["self", "start", "stop"] or [src(d) for d in fn.args.defaults] != ["None", "None"]:
        raise Unsupported("iter_values signature")
    body = [src(s) for s in strip(fn.body)]
    head = ["start = 0 if start is None else start",
            "stop = self.num_records if stop is None else stop",
            "start_partition = np.searchsorted(self.partition_record_index, start, side='right') - 1",
            "offset = self.partition_record_index[start_partition]",
            "assert offset <= start",
            "chunk_offset = start - offset",
            "chunk_record_index = self.chunk_record_index(start_partition)",
            "start_chunk = np.searchsorted(chunk_record_index, chunk_offset, side='right') - 1",
            "record_id = offset + chunk_record_index[start_chunk]",
            "assert record_id <= start"]
    loops = ["for chunk in self.chunks(start_partition, start_chunk):\n    for record in chunk:\n        if record_id == stop:\n            return\n"
             "        if record_id >= start:\n            yield record\n        record_id += 1",
             "assert record_id > start",
             "for partition_id in range(start_partition + 1, self.num_partitions):\n    for chunk in self.chunks(partition_id):\n"
             "        for record in chunk:\n            if record_id == stop:\n                return\n            yield record\n            record_id += 1"]
    if body[: len(head)] != head:
        for a, b in zip(body, head):
            if a != b:
                raise Unsupported("iter_values head: " + a[:120])
        raise Unsupported("iter_values head: length")
    if body[len(head):] != loops:
        raise Unsupported("iter_values loops differ from the shape scan1 / scan2 model")
    ch = find(cls, "chunks")
    want = ["partition_path = self.partition_path(partition_id)",
            "chunk_cumulative_records = self.chunk_record_index(partition_id)",
            "chunk_num_records = np.diff(chunk_cumulative_records)",
            "for count, cumulative in zip(chunk_num_records[start_chunk:], chunk_cumulative_records[start_chunk + 1:]):\n"
            "    path = partition_path / f'{cumulative}'\n    chunk = self.read_chunk(path)\n    if len(chunk) != count:\n"
            "        raise ValueError(f'Corruption detected in chunk: {path}')\n    yield chunk"]
    if [a.arg for a in ch.args.args] != ["self", "partition_id", "start_chunk"] or [src(d) for d in ch.args.defaults] != ["0"] \
            or [src(s) for s in strip(ch.body)] != want:
        raise Unsupported("chunks() shape")
    vals = find(cls, "values")
    want = ["ret = [None] * self.num_records", "j = 0",
            "for partition_id in range(self.num_partitions):\n    for chunk in self.chunks(partition_id):\n        for record in chunk:\n"
            "            ret[j] = record\n            j += 1",
            "assert j == self.num_records", "return ret"]
    if [src(s) for s in strip(vals.body)] != want:
        raise Unsupported("values shape")
    return ("(* IntermediateColumnarFormatField.iter_values, the index arithmetic before the loops\n"
            "   (pri = partition_record_index, cri p = the chunk_index array of partition p; searchsorted(side='right')\n"
            "   = number of entries <= x; Python's a[i] with i >= 0 = nth i) *)\n"
            "Definition ss_right_g (l : list nat) (x : nat) : nat := length (filter (fun y => y <=? x) l).\n"
            "Definition iter_head (pri : list nat) (cri : nat -> list nat) (start : nat) : nat * nat * nat :=\n"
            "  let start_partition := ss_right_g pri start - 1 in\n"
            "  let offset := nth start_partition pri 0 in\n"
            "  let chunk_offset := start - offset in\n"
            "  let chunk_record_index := cri start_partition in\n"
            "  let start_chunk := ss_right_g chunk_record_index chunk_offset - 1 in\n"
            "  let record_id := offset + nth start_chunk chunk_record_index 0 in\n"
            "  (start_partition, start_chunk, record_id).\n"
            "(* chunks(p, c): the chunk files named chunk_index[c+1], chunk_index[c+2], ... in that order, each checked\n"
            "   against its recorded length; values: every chunk of every partition in order *)\n"
            "Definition chunk_names (chunk_index : list nat) (start_chunk : nat) : list nat := skipn (S start_chunk) chunk_index.\n")


def translate():
    tree = ast.parse(open(os.path.join(REPO, "bio2zarr/vcf2zarr/icf.py")).read())
    w = Writer(find(tree, "IcfFieldWriter"))
    parts = [
        "Record wstate := { buff : list A; buffered_bytes : Z; chunk_index : list Z; num_records : Z;\n"
        "                   sum_num_chunks : Z; sum_uncompressed : Z }.\n"
        "Definition set_buff (s : wstate) (v : list A) : wstate := {| buff := v; buffered_bytes := buffered_bytes s; chunk_index := chunk_index s; num_records := num_records s; sum_num_chunks := sum_num_chunks s; sum_uncompressed := sum_uncompressed s |}.\n"
        "Definition set_buffered_bytes (s : wstate) (v : Z) : wstate := {| buff := buff s; buffered_bytes := v; chunk_index := chunk_index s; num_records := num_records s; sum_num_chunks := sum_num_chunks s; sum_uncompressed := sum_uncompressed s |}.\n"
        "Definition set_chunk_index (s : wstate) (v : list Z) : wstate := {| buff := buff s; buffered_bytes := buffered_bytes s; chunk_index := v; num_records := num_records s; sum_num_chunks := sum_num_chunks s; sum_uncompressed := sum_uncompressed s |}.\n"
        "Definition set_num_records (s : wstate) (v : Z) : wstate := {| buff := buff s; buffered_bytes := buffered_bytes s; chunk_index := chunk_index s; num_records := v; sum_num_chunks := sum_num_chunks s; sum_uncompressed := sum_uncompressed s |}.\n"
        "Definition set_sum_num_chunks (s : wstate) (v : Z) : wstate := {| buff := buff s; buffered_bytes := buffered_bytes s; chunk_index := chunk_index s; num_records := num_records s; sum_num_chunks := v; sum_uncompressed := sum_uncompressed s |}.\n"
        "Definition set_sum_uncompressed (s : wstate) (v : Z) : wstate := {| buff := buff s; buffered_bytes := buffered_bytes s; chunk_index := chunk_index s; num_records := num_records s; sum_num_chunks := sum_num_chunks s; sum_uncompressed := v |}.\n"
        "(* the effects: a chunk file named by the running record count holding the buffered values; the index file *)\n"
        "Inductive wevent := WriteChunk (name : Z) (content : list A) | WriteIndex (index : list Z).\n",
        w.init(),
        w.method("write_chunk", []),
        w.method("append", ["val"]),
        w.method("flush", []),
    ]
    pw = partition_writer(tree)
    rd = reader(tree)
    return ("(* GENERATED by translator/icfw2coq.py from bio2zarr/vcf2zarr/icf.py -- do not edit *)\n"
            "From Coq Require Import ZArith Arith List Bool.\nImport ListNotations.\n\n"
            "Section GenIcfWriter.\nContext {A : Type}.\nLocal Open Scope Z_scope.\n\n" + "\n".join(parts) +
            "End GenIcfWriter.\n\n" + pw + "\n" + rd)


def main():
    out_dir = sys.argv[1]
    path = os.path.join(out_dir, "GenIcfWriter.v")
    try:
        text = translate()
        status = "ok"
    except Unsupported as u:
        text = f"(* TRANSLATION FAILED (fail-closed): {u} *)\n"
        status = "unsupported: " + str(u)
    except (SyntaxError, OSError) as u:
        text = f"(* TRANSLATION FAILED (fail-closed): {type(u).__name__} *)\n"
        status = "unsupported: " + type(u).__name__ + ": " + str(u)
    old = open(path).read() if os.path.exists(path) else None
    if old != text:
        open(path, "w").write(text)
    print(json.dumps({"GenIcfWriter": status}))


if __name__ == "__main__":
    main()
