#!/venv/bin/python
"""regions2coq.py -- fail-closed translator for the region-building part of
IndexedVcf.partition_into_regions (vcf_utils.py; C04) to Gallina (coq/Gen/GenRegions.v).
Regenerated on every run; Bridge/BridgeRegions.v proves the generated definitions equal to the
model Model/Regions.v (`build` / `trailing` / `regions`), which regions_cover / partition_correct
are about.

Translated: everything between the computation of `region_contigs` / `region_starts` and the final
`return self._filter_empty_and_refine(regions)`:

    regions = []
    for i in range(len(region_starts)): <body>          -> gen_step i   (the regions appended for cut i)
    for ri in range(region_contigs[-1] + 1, len(self.sequence_names)):
        if self.index.record_counts[ri] > 0: regions.append(Region(self.sequence_names[ri]))
                                                        -> gen_trailing
    return self._filter_empty_and_refine(regions)       (checked: the list is handed on unchanged)

Statement forms of a body (a guard clause `if c: ..; continue` is read as if/else): `x = e` (local), `regions.append(Region(c[, start[, end]]))`, `if c: .. [else: ..]`
(locals assigned in a branch are not visible after it), `for v in range(a, b): <appends, optionally under an if>`.
Expressions: integer literals, locals, + and -, `region_starts[e]`, `region_contigs[e]` (e may be -1),
`len(region_starts)`, `len(self.sequence_names)`, `self.index.record_counts[e]`, comparisons, and
`self.sequence_names[e]`, which is carried as the contig INDEX e: names are compared only with == and
handed to Region(...), so under distinct sequence names (htslib guarantees them) the index stands for the
name.  Also checked before the loop: the selection pipeline
    ind = np.searchsorted(file_offsets, part_lengths); ind = np.delete(ind, ind >= len(file_offsets));
    ind = np.unique(ind); region_contigs = region_contig_indexes[ind]; region_starts = region_positions[ind]
is present in this order (emitted as gen_selection_shape = true; its meaning is Model.Regions.select).
Anything else is Unsupported: the unit is emitted as a comment and the bridge stops compiling.
"""
import ast
import json
import os
import sys

REPO = os.environ.get("VERIF_REPO", "/repo")


class Unsupported(Exception):
    pass


def src(n):
    return ast.unparse(n)


def strip(body):
    out = []
    for s in body:
        if isinstance(s, ast.Expr) and isinstance(s.value, ast.Constant) and isinstance(s.value.value, str):
            continue
        if isinstance(s, ast.Expr) and isinstance(s.value, ast.Call) and src(s.value.func).split(".")[0] in ("logger", "logging", "print"):
            continue
        out.append(s)
    return out


def find(tree, qual):
    node = tree
    for name in qual.split("."):
        for n in node.body:
            if isinstance(n, (ast.FunctionDef, ast.ClassDef)) and n.name == name:
                node = n
                break
        else:
            raise Unsupported("not found: " + qual)
    return node


def zc(n):
    return f"({n})" if n < 0 else str(n)


CMP = {ast.Eq: "=?", ast.Lt: "<?", ast.LtE: "<=?", ast.Gt: ">?", ast.GtE: ">=?"}


class T:
    def __init__(self, acc):
        self.acc = acc

    # returns (term, kind) with kind in {'int', 'name'}
    def expr(self, e, env):
        if isinstance(e, ast.Constant) and isinstance(e.value, int) and not isinstance(e.value, bool):
            return zc(e.value), "int"
        if isinstance(e, ast.UnaryOp) and isinstance(e.op, ast.USub) and isinstance(e.operand, ast.Constant):
            return zc(-e.operand.value), "int"
        if isinstance(e, ast.Name) and e.id in env:
            return env[e.id]
        if isinstance(e, ast.BinOp) and isinstance(e.op, (ast.Add, ast.Sub)):
            a, ka = self.expr(e.left, env)
            b, kb = self.expr(e.right, env)
            if ka != "int" or kb != "int":
                raise Unsupported("arithmetic on a sequence name: " + src(e))
            return f"({a} {'+' if isinstance(e.op, ast.Add) else '-'} {b})", "int"
        if isinstance(e, ast.Call) and src(e.func) == "len" and len(e.args) == 1:
            a = src(e.args[0])
            if a in ("region_starts", "region_contigs"):
                return "n", "int"
            if a == "self.sequence_names":
                return "ncontigs", "int"
        if isinstance(e, ast.Subscript) and not isinstance(e.slice, ast.Slice):
            base = src(e.value)
            if base in ("region_starts", "region_contigs"):
                arr = "rs" if base == "region_starts" else "rc"
                if src(e.slice) == "-1":
                    return f"(zidx {arr} (n - 1))", "int"
                i, k = self.expr(e.slice, env)
                if k != "int":
                    raise Unsupported("index: " + src(e))
                return f"(zidx {arr} {i})", "int"
            if base == "self.sequence_names":
                i, k = self.expr(e.slice, env)
                if k != "int":
                    raise Unsupported("index: " + src(e))
                return i, "name"
            if base == "self.index.record_counts":
                i, k = self.expr(e.slice, env)
                if k != "int":
                    raise Unsupported("index: " + src(e))
                return f"(counts {i})", "int"
        raise Unsupported("expression: " + src(e))

    def cond(self, e, env):
        if isinstance(e, ast.Compare) and len(e.ops) == 1 and type(e.ops[0]) in CMP:
            a, ka = self.expr(e.left, env)
            b, kb = self.expr(e.comparators[0], env)
            if ka != kb or (ka == "name" and not isinstance(e.ops[0], ast.Eq)):
                raise Unsupported("comparison: " + src(e))
            return f"({a} {CMP[type(e.ops[0])]} {b})"
        raise Unsupported("condition: " + src(e))

    def region(self, call, env):
        if not (isinstance(call, ast.Call) and src(call.func) == "Region" and not call.keywords and 1 <= len(call.args) <= 3):
            raise Unsupported("appended value: " + src(call))
        c, k = self.expr(call.args[0], env)
        if k != "name":
            raise Unsupported("Region contig is not a sequence name: " + src(call))
        opt = []
        for a in call.args[1:]:
            t, k = self.expr(a, env)
            if k != "int":
                raise Unsupported("Region bound: " + src(a))
            opt.append(f"(Some {t})")
        opt += ["None"] * (2 - len(opt))
        return f"GR {c} {opt[0]} {opt[1]}"

    def assigned(self, stmts):
        return {t.id for s in ast.walk(ast.Module(body=list(stmts), type_ignores=[])) if isinstance(s, ast.Assign)
                for t in s.targets if isinstance(t, ast.Name)}

    def used(self, stmts):
        return {n.id for s in stmts for n in ast.walk(s) if isinstance(n, ast.Name)}

    def block(self, stmts, env):
        stmts = strip(stmts)
        if not stmts:
            return "[]"
        st, rest = stmts[0], stmts[1:]
        if isinstance(st, ast.Assign) and len(st.targets) == 1 and isinstance(st.targets[0], ast.Name):
            t, k = self.expr(st.value, env)
            v = st.targets[0].id
            return f"let v_{v} := {t} in\n    " + self.block(rest, dict(env, **{v: ("v_" + v, k)}))
        if isinstance(st, ast.Expr) and isinstance(st.value, ast.Call) and src(st.value.func) == f"{self.acc}.append" and len(st.value.args) == 1:
            return f"[{self.region(st.value.args[0], env)}] ++ " + self.block(rest, env)
        if isinstance(st, ast.If) and not st.orelse and strip(st.body) and isinstance(strip(st.body)[-1], ast.Continue):
            # guard clause:  if c: <body>; continue   <rest>   ==   if c: <body> else: <rest>
            st = ast.If(test=st.test, body=strip(st.body)[:-1] or [ast.Pass()], orelse=rest)
            rest = []
        if isinstance(st, ast.Pass):
            return self.block(rest, env)
        if isinstance(st, ast.If):
            inner = (self.assigned(st.body) | self.assigned(st.orelse)) - set(env)
            if inner & self.used(rest):
                raise Unsupported("a local assigned inside a branch is used after it: " + ", ".join(sorted(inner & self.used(rest))))
            return f"(if {self.cond(st.test, env)}\n     then {self.block(st.body, env)}\n     else {self.block(st.orelse, env)}) ++ " + self.block(rest, env)
        if isinstance(st, ast.For) and isinstance(st.target, ast.Name) and not st.orelse and isinstance(st.iter, ast.Call) \
                and src(st.iter.func) == "range" and len(st.iter.args) == 2:
            a, ka = self.expr(st.iter.args[0], env)
            b, kb = self.expr(st.iter.args[1], env)
            if ka != "int" or kb != "int":
                raise Unsupported("range bounds: " + src(st.iter))
            v = st.target.id
            if self.assigned(st.body):
                raise Unsupported("assignment inside an inner loop")
            body = self.block(st.body, dict(env, **{v: ("v_" + v, "int")}))
            return f"flat_map (fun v_{v} => {body}) (zrange {a} {b}) ++ " + self.block(rest, env)
        raise Unsupported("statement: " + src(st)[:100])


SELECTION = [
    "ind = np.searchsorted(file_offsets, part_lengths)",
    "ind = np.delete(ind, ind >= len(file_offsets))",
    "ind = np.unique(ind)",
    "region_contigs = region_contig_indexes[ind]",
    "region_starts = region_positions[ind]",
]


def translate():
    tree = ast.parse(open(os.path.join(REPO, "bio2zarr/vcf_utils.py")).read())
    fn = find(tree, "IndexedVcf.partition_into_regions")
    body = strip(fn.body)
    texts = [src(s) for s in body]
    # the selection pipeline, in order, each statement exactly once
    pos = []
    for want in SELECTION:
        if texts.count(want) != 1:
            raise Unsupported("selection statement missing or repeated: " + want)
        pos.append(texts.index(want))
    if pos != sorted(pos):
        raise Unsupported("selection statements out of order")
    if "file_offsets, region_contig_indexes, region_positions = self.index.offsets()" not in texts[: pos[0]]:
        raise Unsupported("offsets table not taken from self.index.offsets()")
    k = pos[-1] + 1
    tail = body[k:]
    # nothing between the selection statements may rebind the selected names
    for s in body[pos[0]: k]:
        if src(s) not in SELECTION:
            raise Unsupported("statement inside the selection pipeline: " + src(s)[:80])
    if len(tail) != 4:
        raise Unsupported("region building has %d top-level statements" % len(tail))
    s_init, s_loop, s_trail, s_ret = tail
    if not (isinstance(s_init, ast.Assign) and isinstance(s_init.targets[0], ast.Name) and isinstance(s_init.value, ast.List) and not s_init.value.elts):
        raise Unsupported("accumulator: " + src(s_init))
    acc = s_init.targets[0].id
    t = T(acc)
    if not (isinstance(s_loop, ast.For) and isinstance(s_loop.target, ast.Name) and src(s_loop.iter) in ("range(len(region_starts))", "range(len(region_contigs))") and not s_loop.orelse):
        raise Unsupported("cut loop: " + src(s_loop.iter))
    i = s_loop.target.id
    step = t.block(s_loop.body, {i: ("v_" + i, "int")})
    if not isinstance(s_trail, ast.For):
        raise Unsupported("trailing loop: " + src(s_trail)[:80])
    trailing = t.block([s_trail], {})
    if src(s_ret) != f"return self._filter_empty_and_refine({acc})":
        raise Unsupported("return: " + src(s_ret))
    return f"""(* GENERATED by translator/regions2coq.py from {REPO}/bio2zarr/vcf_utils.py: IndexedVcf.partition_into_regions *)
From Coq Require Import ZArith List Bool.
From B2Z Require Import Base.Prims Base.NpPrims Base.PlinkOps.
Import ListNotations.
Open Scope Z_scope.

(* Region(contig[, start[, end]]): the contig is carried as its index into sequence_names *)
Inductive gregion := GR (contig : Z) (start stop : option Z).

(* ind = searchsorted -> delete(>= len) -> unique; region_contigs / region_starts = table[ind]: present, in order *)
Definition gen_selection_shape : bool := true.

Section Build.
Variable ncontigs : Z.                 (* len(self.sequence_names) *)
Variable counts : Z -> Z.              (* self.index.record_counts *)
Variable rc rs : list Z.               (* region_contigs, region_starts *)
Let n := Z.of_nat (length rs).

(* the regions appended for cut {i} *)
Definition gen_step (v_{i} : Z) : list gregion :=
    {step}.

Definition gen_trailing : list gregion :=
    {trailing}.

Definition gen_regions : list gregion := flat_map gen_step (zrange 0 n) ++ gen_trailing.
End Build.
"""


def main():
    out_dir = sys.argv[1]
    path = os.path.join(out_dir, "GenRegions.v")
    try:
        text = translate()
        status = "ok"
    except Unsupported as u:
        text = f"(* TRANSLATION FAILED (fail-closed): {u} *)\n"
        status = "unsupported: " + str(u)
    except (SyntaxError, OSError) as u:
        text = f"(* TRANSLATION FAILED (fail-closed): {type(u).__name__} *)\n"
        status = "unsupported: " + type(u).__name__ + ": " + str(u)
    old = open(path).read() if os.path.exists(path) else None
    if old != text:
        open(path, "w").write(text)
    print(json.dumps({"GenRegions": status}))


if __name__ == "__main__":
    main()
