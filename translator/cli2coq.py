#!/venv/bin/python
"""cli2coq.py -- regenerates coq/Gen/GenCli.v from bio2zarr/cli.py's AST (fail-closed):
  * every module-level click.option / click.argument declaration: flags, type, default, is_flag;
  * every @click.command function: the option objects it is decorated with, its parameters,
    the statements before the library call (setup_logging / check_overwrite_dir(<path>, force) /
    check_partitions(num_partitions) / `if one_based: partition -= 1`), the library call with
    the expression bound to every positional and keyword argument
        Opt <param> | Codec (Opt <param>)        -- get_compressor(<param>)
        Stdout                                    -- the stdout text stream (mkschema)
        Local <name>                              -- a local computed earlier (vcfpartition)
    and the statements after it (show_work_summary(work_summary, json) / click.echo(...));
  * the control skeleton of check_overwrite_dir.
Anything it cannot classify is Unsupported -> the unit is not emitted.
"""
import ast
import json
import os
import sys

REPO = os.environ.get("VERIF_REPO", "/repo")


class Unsupported(Exception):
    pass


def q(s):
    return '"' + s.replace('"', '""') + '"'


def expr(e, params, locals_):
    if isinstance(e, ast.Name):
        if e.id in params:
            return f"Opt {q(e.id)}"
        if e.id in locals_:
            return f"Local {q(e.id)}"
        raise Unsupported("unbound name " + e.id)
    if isinstance(e, ast.Call) and ast.unparse(e.func) == "get_compressor" and len(e.args) == 1 and isinstance(e.args[0], ast.Name) and e.args[0].id in params:
        return f"Codec (Opt {q(e.args[0].id)})"
    raise Unsupported("argument expression " + ast.unparse(e))


def main():
    out_dir = sys.argv[1]
    path = os.path.join(out_dir, "GenCli.v")
    try:
        tree = ast.parse(open(os.path.join(REPO, "bio2zarr/cli.py")).read())
        opts = []
        optnames = set()
        for n in tree.body:
            if isinstance(n, ast.Assign) and isinstance(n.value, ast.Call) and ast.unparse(n.value.func) in ("click.option", "click.argument"):
                kind = ast.unparse(n.value.func).split(".")[1]
                decls = [a.value for a in n.value.args if isinstance(a, ast.Constant)]
                kw = {k.arg: ast.unparse(k.value) for k in n.value.keywords if k.arg not in ("help", "show_default")}
                name = n.targets[0].id
                optnames.add(name)
                opts.append((name, kind, decls, kw))
        cmds = []
        for n in tree.body:
            if not (isinstance(n, ast.FunctionDef) and any(ast.unparse(d).startswith("click.command") for d in n.decorator_list)):
                continue
            cname = n.name
            for d in n.decorator_list:
                if isinstance(d, ast.Call) and ast.unparse(d.func) == "click.command":
                    for k in d.keywords:
                        if k.arg == "name":
                            cname = n.name + ":" + k.value.value
            used = []
            for d in n.decorator_list:
                if isinstance(d, ast.Name) and d.id in optnames:
                    used.append(d.id)
                elif isinstance(d, ast.Call) and ast.unparse(d.func) in ("click.option", "click.argument"):
                    used.append("inline:" + ",".join(a.value for a in d.args if isinstance(a, ast.Constant)))
                elif isinstance(d, ast.Name) and d.id == "version":
                    used.append("version")
                elif ast.unparse(d).startswith("click.command"):
                    pass
                else:
                    raise Unsupported("decorator " + ast.unparse(d))
            params = [a.arg for a in n.args.args]
            pre, post, call = [], [], None
            locals_ = set()
            for st in n.body:
                if isinstance(st, ast.Expr) and isinstance(st.value, ast.Constant):
                    continue
                src = ast.unparse(st)
                libcall = None
                for c in ast.walk(st):
                    if isinstance(c, ast.Call) and ast.unparse(c.func).split(".")[0] in ("vcf2zarr", "plink") and call is None:
                        libcall = c
                target = post if call is not None else pre
                if libcall is not None and cname != "vcfpartition":
                    if not (isinstance(st, (ast.Expr, ast.Assign)) and (st.value is libcall)):
                        raise Unsupported("library call not at statement level: " + src[:60])
                    call = libcall
                    if isinstance(st, ast.Assign):
                        locals_.add(st.targets[0].id)
                    continue
                if isinstance(st, ast.Expr) and isinstance(st.value, ast.Call):
                    f = ast.unparse(st.value.func)
                    if f == "setup_logging" and src == "setup_logging(verbose)":
                        target.append("SetupLogging")
                    elif f == "check_overwrite_dir" and len(st.value.args) == 2 and ast.unparse(st.value.args[1]) == "force":
                        target.append(f"CheckOverwrite {q(ast.unparse(st.value.args[0]))}")
                    elif f == "check_partitions" and src == "check_partitions(num_partitions)":
                        target.append("CheckPartitions")
                    elif f == "show_work_summary" and src == "show_work_summary(work_summary, json)":
                        target.append("ShowWorkSummary")
                    elif f == "click.echo":
                        target.append(f"Echo {q(ast.unparse(st.value.args[0]))}")
                    else:
                        raise Unsupported("statement " + src[:60])
                elif isinstance(st, ast.If) and src == "if one_based:\n    partition -= 1":
                    target.append("OneBasedAdjust")
                elif isinstance(st, ast.Assign) and ast.unparse(st.value) == "click.get_text_stream('stdout')":
                    locals_.add(st.targets[0].id)
                    target.append(f"StdoutStream {q(st.targets[0].id)}")
                elif cname == "vcfpartition":
                    target.append(f"Raw {q(' '.join(src.split()))}")
                else:
                    raise Unsupported("statement " + src[:60])
            if cname == "vcfpartition":
                cmds.append((cname, used, params, pre, None, post))
                continue
            if call is None:
                raise Unsupported("no library call in " + cname)
            pos = [expr(a, set(params), locals_) for a in call.args]
            kws = [(k.arg, expr(k.value, set(params), locals_)) for k in call.keywords]
            cmds.append((cname, used, params, pre, (ast.unparse(call.func), pos, kws), post))
        # check_overwrite_dir skeleton
        cod = next(n for n in tree.body if isinstance(n, ast.FunctionDef) and n.name == "check_overwrite_dir")
        body = [s for s in cod.body if not (isinstance(s, ast.Expr) and ast.unparse(s).startswith("logger."))]
        ok = (
            len(body) == 2 and ast.unparse(body[0]) == "path = pathlib.Path(path)" and isinstance(body[1], ast.If)
            and ast.unparse(body[1].test) == "path.exists()" and not body[1].orelse
        )
        if ok:
            inner = [s for s in body[1].body if not (isinstance(s, ast.Expr) and ast.unparse(s).startswith("logger."))]
            ok = (
                len(inner) == 4 and isinstance(inner[0], ast.If) and ast.unparse(inner[0].test) == "not force" and not inner[0].orelse
                and len(inner[0].body) == 1 and ast.unparse(inner[0].body[0]).startswith("click.confirm(") and "abort=True" in ast.unparse(inner[0].body[0])
                and ast.unparse(inner[1]).startswith("tmp_delete_path = path.with_suffix(")
                and ast.unparse(inner[2]) == "os.rename(path, tmp_delete_path)"
                and ast.unparse(inner[3]) == "shutil.rmtree(tmp_delete_path)"
            )
        if not ok:
            raise Unsupported("check_overwrite_dir has an unrecognised shape")
        L = []
        L.append(f"(* GENERATED by translator/cli2coq.py from {REPO}/bio2zarr/cli.py -- do not edit *)")
        L.append("From Coq Require Import String List Bool.\nImport ListNotations.\nOpen Scope string_scope.\n")
        L.append("Inductive expr := Opt (param : string) | Codec (e : expr) | Local (name : string).")
        L.append("Inductive stmt := SetupLogging | CheckOverwrite (path : string) | CheckPartitions | OneBasedAdjust | ShowWorkSummary")
        L.append("  | StdoutStream (v : string) | Echo (what : string) | Raw (src : string).")
        L.append("Record optdecl := { o_var : string; o_kind : string; o_flags : list string; o_attrs : list (string * string) }.")
        L.append("Record command := { c_name : string; c_options : list string; c_params : list string; c_pre : list stmt;")
        L.append("  c_call : option (string * list expr * list (string * expr)); c_post : list stmt }.\n")
        L.append("Definition options : list optdecl := [")
        L.append(";\n".join(
            "  {| o_var := %s; o_kind := %s; o_flags := [%s]; o_attrs := [%s] |}" % (
                q(name), q(kind), "; ".join(q(d) for d in decls), "; ".join(f"({q(k)}, {q(v)})" for k, v in sorted(kw.items())))
            for name, kind, decls, kw in opts))
        L.append("].\n")
        L.append("Definition commands : list command := [")
        items = []
        for cname, used, params, pre, call, post in cmds:
            if call is None:
                cs = "None"
            else:
                cs = "Some (%s, [%s], [%s])" % (q(call[0]), "; ".join(call[1]), "; ".join(f"({q(k)}, {v})" for k, v in call[2]))
            items.append("  {| c_name := %s; c_options := [%s]; c_params := [%s];\n     c_pre := [%s];\n     c_call := %s;\n     c_post := [%s] |}" % (
                q(cname), "; ".join(q(u) for u in used), "; ".join(q(p) for p in params), "; ".join(pre), cs, "; ".join(post)))
        L.append(";\n".join(items))
        L.append("].\n")
        L.append("(* check_overwrite_dir(path, force): if path.exists(): if not force: click.confirm(..., abort=True);")
        L.append("   os.rename(path, <tmp>); shutil.rmtree(<tmp>) *)")
        L.append("Inductive fsop := Rename | Rmtree.")
        L.append("Definition check_overwrite_dir (exists_ force confirmed : bool) : option (list fsop) :=")
        L.append("  if exists_ then (if negb force then (if confirmed then Some [Rename; Rmtree] else None) else Some [Rename; Rmtree]) else Some [].")
        text = "\n".join(L) + "\n"
        status = {"GenCli": "ok"}
        # the same table for the harness (what the mocked-library runs are compared with)
        jt = dict(options=[dict(var=n, kind=k, flags=d, attrs=a) for n, k, d, a in opts],
                  commands=[dict(name=c, options=u, params=p, pre=pre, call=(None if call is None else dict(fn=call[0], pos=call[1], kw=call[2])), post=post)
                            for c, u, p, pre, call, post in cmds])
        json.dump(jt, open(os.path.join(out_dir, "GenCli.json"), "w"), indent=1)
    except Unsupported as u:
        text = f"(* TRANSLATION FAILED (fail-closed): {u} *)\n"
        status = {"GenCli": "unsupported: " + str(u)}
    except (SyntaxError, OSError, StopIteration) as u:
        text = f"(* TRANSLATION FAILED (fail-closed): {type(u).__name__} *)\n"
        status = {"GenCli": "unsupported: " + type(u).__name__}
    old = open(path).read() if os.path.exists(path) else None
    if old != text:
        open(path, "w").write(text)
    print(json.dumps(status))


if __name__ == "__main__":
    main()
