#!/venv/bin/python
"""cli2coq.py -- regenerates coq/Gen/GenCli.v from bio2zarr/cli.py's AST (fail-closed):
  * every module-level click.option / click.argument declaration: flags, type, default, is_flag;
  * every @click.command function: the option objects it is decorated with, its parameters,
    the statements before the library call (setup_logging / check_overwrite_dir(<path>, force) /
    check_partitions(num_partitions) / `if one_based: partition -= 1`), the library call with
    the expression bound to every positional and keyword argument
        Opt <param> | Codec (Opt <param>)        -- get_compressor(<param>)
        Stdout                                    -- the stdout text stream (mkschema)
        Local <name>                              -- a local computed earlier (vcfpartition)
    and the statements after it (show_work_summary(work_summary, json) / click.echo(...));
  * the control skeleton of check_overwrite_dir.
Anything it cannot classify is Unsupported -> the unit is not emitted.
"""
import ast
import json
import os
import sys

REPO = os.environ.get("VERIF_REPO", "/repo")


class Unsupported(Exception):
    pass


def q(s):
    return '"' + s.replace('"', '""') + '"'


def expr(e, params, locals_):
    if isinstance(e, ast.Name):
        if e.id in params:
            return f"Opt {q(e.id)}"
        if e.id in locals_:
            return f"Local {q(e.id)}"
        raise Unsupported("unbound name " + e.id)
    if isinstance(e, ast.Call) and ast.unparse(e.func) == "get_compressor" and len(e.args) == 1 and isinstance(e.args[0], ast.Name) and e.args[0].id in params:
        return f"Codec (Opt {q(e.args[0].id)})"
    raise Unsupported("argument expression " + ast.unparse(e))


def one_based_helper(tree, name):
    """is `name(p, flag)` a module-level helper that returns p - 1 if flag else p ?"""
    fn = next((n for n in tree.body if isinstance(n, ast.FunctionDef) and n.name == name), None)
    if fn is None or len(fn.args.args) != 2 or fn.args.kwonlyargs or fn.args.vararg or fn.args.kwarg or fn.decorator_list:
        return False
    p, flag = (a.arg for a in fn.args.args)
    body = [s for s in fn.body if not (isinstance(s, ast.Expr) and isinstance(s.value, ast.Constant))]
    forms = [
        [f"if {flag}:\n    return {p} - 1", f"return {p}"],
        [f"if {flag}:\n    {p} -= 1", f"return {p}"],
        [f"return {p} - 1 if {flag} else {p}"],
        [f"if {flag}:\n    return {p} - 1\nelse:\n    return {p}"],
        [f"if not {flag}:\n    return {p}", f"return {p} - 1"],
    ]
    return [ast.unparse(s) for s in body] in forms


def main():
    out_dir = sys.argv[1]
    path = os.path.join(out_dir, "GenCli.v")
    try:
        tree = ast.parse(open(os.path.join(REPO, "bio2zarr/cli.py")).read())
        opts = []
        optnames = set()
        for n in tree.body:
            if isinstance(n, ast.Assign) and isinstance(n.value, ast.Call) and ast.unparse(n.value.func) in ("click.option", "click.argument"):
                kind = ast.unparse(n.value.func).split(".")[1]
                decls = [a.value for a in n.value.args if isinstance(a, ast.Constant)]
                kw = {k.arg: ast.unparse(k.value) for k in n.value.keywords if k.arg not in ("help", "show_default")}
                name = n.targets[0].id
                optnames.add(name)
                opts.append((name, kind, decls, kw))
        cmds = []
        for n in tree.body:
            if not (isinstance(n, ast.FunctionDef) and any(ast.unparse(d).startswith("click.command") for d in n.decorator_list)):
                continue
            cname = n.name
            for d in n.decorator_list:
                if isinstance(d, ast.Call) and ast.unparse(d.func) == "click.command":
                    for k in d.keywords:
                        if k.arg == "name":
                            cname = n.name + ":" + k.value.value
            used = []
            for d in n.decorator_list:
                if isinstance(d, ast.Name) and d.id in optnames:
                    used.append(d.id)
                elif isinstance(d, ast.Call) and ast.unparse(d.func) in ("click.option", "click.argument"):
                    used.append("inline:" + ",".join(a.value for a in d.args if isinstance(a, ast.Constant)))
                elif isinstance(d, ast.Name) and d.id == "version":
                    used.append("version")
                elif ast.unparse(d).startswith("click.command"):
                    pass
                else:
                    raise Unsupported("decorator " + ast.unparse(d))
            params = [a.arg for a in n.args.args]
            pre, post, call = [], [], None
            locals_ = set()
            for st in n.body:
                if isinstance(st, ast.Expr) and isinstance(st.value, ast.Constant):
                    continue
                src = ast.unparse(st)
                libcall = None
                for c in ast.walk(st):
                    if isinstance(c, ast.Call) and ast.unparse(c.func).split(".")[0] in ("vcf2zarr", "plink") and call is None:
                        libcall = c
                target = post if call is not None else pre
                if libcall is not None and cname != "vcfpartition":
                    if not (isinstance(st, (ast.Expr, ast.Assign)) and (st.value is libcall)):
                        raise Unsupported("library call not at statement level: " + src[:60])
                    call = libcall
                    if isinstance(st, ast.Assign):
                        locals_.add(st.targets[0].id)
                    continue
                if isinstance(st, ast.Expr) and isinstance(st.value, ast.Call):
                    f = ast.unparse(st.value.func)
                    if f == "setup_logging" and src == "setup_logging(verbose)":
                        target.append("SetupLogging")
                    elif f == "check_overwrite_dir" and len(st.value.args) == 2 and ast.unparse(st.value.args[1]) == "force":
                        target.append(f"CheckOverwrite {q(ast.unparse(st.value.args[0]))}")
                    elif f == "check_partitions" and src == "check_partitions(num_partitions)":
                        target.append("CheckPartitions")
                    elif f == "show_work_summary" and src == "show_work_summary(work_summary, json)":
                        target.append("ShowWorkSummary")
                    elif f == "click.echo":
                        target.append(f"Echo {q(ast.unparse(st.value.args[0]))}")
                    else:
                        raise Unsupported("statement " + src[:60])
                elif isinstance(st, ast.If) and src == "if one_based:\n    partition -= 1":
                    target.append("OneBasedAdjust")
                elif src in ("partition = partition - 1 if one_based else partition", "partition -= 1 if one_based else 0", "partition -= int(one_based)"):
                    target.append("OneBasedAdjust")
                elif isinstance(st, ast.Assign) and ast.unparse(st.targets[0]) == "partition" and isinstance(st.value, ast.Call) \
                        and isinstance(st.value.func, ast.Name) and [ast.unparse(a) for a in st.value.args] == ["partition", "one_based"] \
                        and not st.value.keywords and one_based_helper(tree, st.value.func.id):
                    target.append("OneBasedAdjust")
                elif isinstance(st, ast.Assign) and ast.unparse(st.value) == "click.get_text_stream('stdout')":
                    locals_.add(st.targets[0].id)
                    target.append(f"StdoutStream {q(st.targets[0].id)}")
                elif cname == "vcfpartition":
                    target.append(f"Raw {q(' '.join(src.split()))}")
                else:
                    raise Unsupported("statement " + src[:60])
            if cname == "vcfpartition":
                cmds.append((cname, used, params, pre, None, post))
                continue
            if call is None:
                raise Unsupported("no library call in " + cname)
            pos = [expr(a, set(params), locals_) for a in call.args]
            kws = [(k.arg, expr(k.value, set(params), locals_)) for k in call.keywords]
            cmds.append((cname, used, params, pre, (ast.unparse(call.func), pos, kws), post))
        # check_overwrite_dir: evaluated symbolically for the eight combinations of (path exists, --force,
        # confirmation given); any control-flow shape is fine as long as every statement is one of: a test on
        # path.exists() / force, click.confirm(..., abort=True), <tmp> = path.with_suffix(...), os.rename(path, <tmp>),
        # shutil.rmtree(<tmp>), return, logging
        cod = next(n for n in tree.body if isinstance(n, ast.FunctionDef) and n.name == "check_overwrite_dir")
        if [a.arg for a in cod.args.args] != ["path", "force"]:
            raise Unsupported("check_overwrite_dir has an unrecognised signature")

        class Abort(Exception):
            pass

        class Done(Exception):
            pass

        def cod_cond(e, env):
            t = ast.unparse(e)
            if t == "path.exists()":
                return env["E"]
            if t == "force":
                return env["F"]
            if isinstance(e, ast.UnaryOp) and isinstance(e.op, ast.Not):
                return not cod_cond(e.operand, env)
            if isinstance(e, ast.BoolOp):
                vals = [cod_cond(v, env) for v in e.values]
                return all(vals) if isinstance(e.op, ast.And) else any(vals)
            raise Unsupported("check_overwrite_dir: condition " + t[:60])

        def cod_run(stmts, env, ops, tmps):
            for st in stmts:
                t = ast.unparse(st)
                if isinstance(st, ast.Expr) and isinstance(st.value, ast.Constant):
                    continue
                if isinstance(st, ast.Expr) and t.startswith("logger."):
                    continue
                if t == "path = pathlib.Path(path)":
                    continue
                if isinstance(st, ast.If):
                    cod_run(st.body if cod_cond(st.test, env) else st.orelse, env, ops, tmps)
                    continue
                if isinstance(st, ast.Return) and st.value is None:
                    raise Done()
                if isinstance(st, ast.Expr) and t.startswith("click.confirm(") and "abort=True" in t:
                    if not env["C"]:
                        raise Abort()
                    continue
                if isinstance(st, ast.Assign) and len(st.targets) == 1 and isinstance(st.targets[0], ast.Name) \
                        and ast.unparse(st.value).startswith("path.with_suffix("):
                    tmps.add(st.targets[0].id)
                    continue
                if isinstance(st, ast.Expr) and isinstance(st.value, ast.Call) and ast.unparse(st.value.func) == "os.rename" \
                        and len(st.value.args) == 2 and ast.unparse(st.value.args[0]) == "path" and ast.unparse(st.value.args[1]) in tmps:
                    ops.append("Rename")
                    continue
                if isinstance(st, ast.Expr) and isinstance(st.value, ast.Call) and ast.unparse(st.value.func) == "shutil.rmtree" \
                        and len(st.value.args) == 1 and ast.unparse(st.value.args[0]) in tmps:
                    ops.append("Rmtree")
                    continue
                raise Unsupported("check_overwrite_dir: statement " + t[:60])

        cod_table = {}
        for E in (False, True):
            for F in (False, True):
                for C in (False, True):
                    ops, tmps = [], set()
                    try:
                        cod_run(cod.body, dict(E=E, F=F, C=C), ops, tmps)
                        res = ops
                    except Done:
                        res = ops
                    except Abort:
                        res = None if not ops else "PARTIAL"
                    if res == "PARTIAL":
                        raise Unsupported("check_overwrite_dir: confirmation asked after a file-system operation")
                    cod_table[(E, F, C)] = res
        L = []
        L.append(f"(* GENERATED by translator/cli2coq.py from {REPO}/bio2zarr/cli.py -- do not edit *)")
        L.append("From Coq Require Import String List Bool.\nImport ListNotations.\nOpen Scope string_scope.\n")
        L.append("Inductive expr := Opt (param : string) | Codec (e : expr) | Local (name : string).")
        L.append("Inductive stmt := SetupLogging | CheckOverwrite (path : string) | CheckPartitions | OneBasedAdjust | ShowWorkSummary")
        L.append("  | StdoutStream (v : string) | Echo (what : string) | Raw (src : string).")
        L.append("Record optdecl := { o_var : string; o_kind : string; o_flags : list string; o_attrs : list (string * string) }.")
        L.append("Record command := { c_name : string; c_options : list string; c_params : list string; c_pre : list stmt;")
        L.append("  c_call : option (string * list expr * list (string * expr)); c_post : list stmt }.\n")
        L.append("Definition options : list optdecl := [")
        L.append(";\n".join(
            "  {| o_var := %s; o_kind := %s; o_flags := [%s]; o_attrs := [%s] |}" % (
                q(name), q(kind), "; ".join(q(d) for d in decls), "; ".join(f"({q(k)}, {q(v)})" for k, v in sorted(kw.items())))
            for name, kind, decls, kw in opts))
        L.append("].\n")
        L.append("Definition commands : list command := [")
        items = []
        for cname, used, params, pre, call, post in cmds:
            if call is None:
                cs = "None"
            else:
                cs = "Some (%s, [%s], [%s])" % (q(call[0]), "; ".join(call[1]), "; ".join(f"({q(k)}, {v})" for k, v in call[2]))
            items.append("  {| c_name := %s; c_options := [%s]; c_params := [%s];\n     c_pre := [%s];\n     c_call := %s;\n     c_post := [%s] |}" % (
                q(cname), "; ".join(q(u) for u in used), "; ".join(q(p) for p in params), "; ".join(pre), cs, "; ".join(post)))
        L.append(";\n".join(items))
        L.append("].\n")
        L.append("(* check_overwrite_dir(path, force): if path.exists(): if not force: click.confirm(..., abort=True);")
        L.append("   os.rename(path, <tmp>); shutil.rmtree(<tmp>) *)")
        L.append("Inductive fsop := Rename | Rmtree.")
        L.append("(* outcome for each of the eight cases, obtained by evaluating the source's statements; None = aborted *)")
        L.append("Definition check_overwrite_dir (exists_ force confirmed : bool) : option (list fsop) :=")
        L.append("  match exists_, force, confirmed with")
        for (E, F, C), res in sorted(cod_table.items()):
            b = lambda x: "true" if x else "false"  # noqa: E731
            L.append("  | %s, %s, %s => %s" % (b(E), b(F), b(C), "None" if res is None else "Some [" + "; ".join(res) + "]"))
        L.append("  end.")
        text = "\n".join(L) + "\n"
        status = {"GenCli": "ok"}
        # the same table for the harness (what the mocked-library runs are compared with)
        jt = dict(options=[dict(var=n, kind=k, flags=d, attrs=a) for n, k, d, a in opts],
                  commands=[dict(name=c, options=u, params=p, pre=pre, call=(None if call is None else dict(fn=call[0], pos=call[1], kw=call[2])), post=post)
                            for c, u, p, pre, call, post in cmds])
        json.dump(jt, open(os.path.join(out_dir, "GenCli.json"), "w"), indent=1)
    except Unsupported as u:
        text = f"(* TRANSLATION FAILED (fail-closed): {u} *)\n"
        status = {"GenCli": "unsupported: " + str(u)}
    except (SyntaxError, OSError, StopIteration) as u:
        text = f"(* TRANSLATION FAILED (fail-closed): {type(u).__name__} *)\n"
        status = {"GenCli": "unsupported: " + type(u).__name__}
    old = open(path).read() if os.path.exists(path) else None
    if old != text:
        open(path, "w").write(text)
    print(json.dumps(status))


if __name__ == "__main__":
    main()
