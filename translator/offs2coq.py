#!/venv/bin/python
"""offs2coq.py -- fail-closed translator for CSIIndex.offsets and TabixIndex.offsets (vcf_utils.py; C04):
the tables (file offset, contig index, first position) the region partitioning searches.  Output:
coq/Gen/GenOffsets.v, regenerated on every run; Bridge/BridgeOffsets.v proves the generated definitions
equal to Model.Regions.offsets_csi / offsets_tbi, the tables csi_positions_sorted / csi_selected_strict and
the end-to-end comparison are about.

CSIIndex.offsets -- recognised statement by statement:
    pseudo_bin = bin_limit(self.min_shift, self.depth) + 1
    file_offsets = [] ; contig_indexes = [] ; positions = []
    for contig_index, bins in enumerate(self.bins):
        keyed_bins = [(bin.loffset, get_first_locus_in_bin(self, bin.bin)) for bin in bins if bin.bin != pseudo_bin]
        for loffset, position in sorted(keyed_bins):            <- the sort key is the pair, lexicographic (defect F1)
            file_offset = get_file_offset(loffset)
            file_offsets.append(file_offset) ; contig_indexes.append(contig_index) ; positions.append(position)
    return np.array(file_offsets), np.array(contig_indexes), np.array(positions)
TabixIndex.offsets -- the vectorised form:
    linear_index = np.hstack([np.array(li) for li in linear_indexes])
    file_offsets = np.array([get_file_offset(vfp) for vfp in linear_index])
    contig_indexes = np.hstack([np.full(len(li), i) for (i, li) in enumerate(linear_indexes)])
    positions = np.hstack([np.arange(len(li)) * TABIX_LINEAR_INDEX_INTERVAL_SIZE + 1 for li in linear_indexes])
    return file_offsets, contig_indexes, positions
(the three parallel arrays are emitted as one list of triples).  get_file_offset / get_first_locus_in_bin / bin_limit
are the definitions py2coq translates (Gen/GenBins.v).  Anything else is Unsupported.
"""
import ast
import json
import os
import sys

REPO = os.environ.get("VERIF_REPO", "/repo")


class Unsupported(Exception):
    pass


def src(n):
    return ast.unparse(n)


def strip(body):
    out = []
    for s in body:
        if isinstance(s, ast.Expr) and isinstance(s.value, ast.Constant) and isinstance(s.value.value, str):
            continue
        if isinstance(s, ast.Expr) and isinstance(s.value, ast.Call) and src(s.value.func).split(".")[0] in ("logger", "logging", "print"):
            continue
        if isinstance(s, ast.Assert):
            t = src(s.test)
            if t.startswith("len(") and "==" in t:
                continue
        out.append(s)
    return out


def find(tree, qual):
    node = tree
    for name in qual.split("."):
        for n in node.body:
            if isinstance(n, (ast.FunctionDef, ast.ClassDef)) and n.name == name:
                node = n
                break
        else:
            raise Unsupported("not found: " + qual)
    return node


CSI_TEXT = """(* CSIIndex.offsets: bins = per contig the (bin number, loffset) pairs in on-disk order *)
Definition gen_offsets_csi (min_shift depth : Z) (bins : list (list (Z * Z))) : res (list (Z * (Z * Z))) :=
  let pseudo_bin := bin_limit min_shift depth + 1 in
  bind (mapM_i (fun contig_index bins =>
          bind (mapM (fun b => bind (get_first_locus_in_bin depth min_shift (fst b)) (fun position => Ok (snd b, position)))
                     (filter (fun b => negb (fst b =? pseudo_bin)) bins))
               (fun keyed_bins => Ok (map (fun lp => (get_file_offset (fst lp), (contig_index, snd lp))) ({sort} keyed_bins))))
        0 bins)
       (fun per_contig => Ok (concat per_contig)).
"""


def csi(tree):
    fn = find(tree, "CSIIndex.offsets")
    b = strip(fn.body)
    t = [src(s) for s in b]
    if len(b) != 6 or t[0] != "pseudo_bin = bin_limit(self.min_shift, self.depth) + 1" \
            or sorted(t[1:4]) != ["contig_indexes = []", "file_offsets = []", "positions = []"]:
        raise Unsupported("CSIIndex.offsets: prologue: " + " | ".join(t[:4])[:160])
    loop, ret = b[4], b[5]
    if src(ret) != "return (np.array(file_offsets), np.array(contig_indexes), np.array(positions))":
        raise Unsupported("CSIIndex.offsets: return: " + src(ret))
    if not (isinstance(loop, ast.For) and src(loop.target) == "(contig_index, bins)" and src(loop.iter) == "enumerate(self.bins)" and not loop.orelse):
        raise Unsupported("CSIIndex.offsets: contig loop: " + src(loop)[:80])
    lb = strip(loop.body)
    want = "keyed_bins = [(bin.loffset, get_first_locus_in_bin(self, bin.bin)) for bin in bins if bin.bin != pseudo_bin]"
    if not lb or src(lb[0]) != want:
        raise Unsupported("CSIIndex.offsets: keyed bins: " + (src(lb[0])[:160] if lb else "-"))
    if len(lb) == 5 and isinstance(lb[1], ast.Assign) and isinstance(lb[1].targets[0], ast.Name) and src(lb[1].value) == "sorted(keyed_bins)":
        # the same three columns appended with extend() over the sorted list
        o = lb[1].targets[0].id
        ext = sorted(src(x) for x in lb[2:])
        if ext == sorted([f"file_offsets.extend((get_file_offset(loffset) for loffset, _ in {o}))", f"contig_indexes.extend([contig_index] * len({o}))",
                          f"positions.extend((position for _, position in {o}))"]):
            return CSI_TEXT.format(sort="py_sorted_pairs")
        raise Unsupported("CSIIndex.offsets: extend form: " + " | ".join(ext)[:200])
    if len(lb) != 2:
        raise Unsupported("CSIIndex.offsets: contig loop body has %d statements" % len(lb))
    keyed, inner = lb
    if not (isinstance(inner, ast.For) and src(inner.target) == "(loffset, position)" and not inner.orelse):
        raise Unsupported("CSIIndex.offsets: inner loop")
    it = src(inner.iter)
    if it == "sorted(keyed_bins)":
        sort = "py_sorted_pairs"
    else:
        raise Unsupported("CSIIndex.offsets: bins not iterated in the order of sorted((loffset, first locus)): " + it[:100])
    ib = [src(s) for s in strip(inner.body)]
    if ib[0] != "file_offset = get_file_offset(loffset)" or sorted(ib[1:]) != ["contig_indexes.append(contig_index)", "file_offsets.append(file_offset)", "positions.append(position)"]:
        raise Unsupported("CSIIndex.offsets: inner body: " + " | ".join(ib)[:160])
    return CSI_TEXT.format(sort=sort)


def tbi(tree):
    fn = find(tree, "TabixIndex.offsets")
    t = [src(s) for s in strip(fn.body)]
    interval = None
    for st in tree.body:
        if isinstance(st, ast.Assign) and src(st.targets[0]) == "TABIX_LINEAR_INDEX_INTERVAL_SIZE":
            v = src(st.value)
            if v == "1 << 14":
                interval = 16384
            elif v.isdigit():
                interval = int(v)
    if interval is None:
        raise Unsupported("TABIX_LINEAR_INDEX_INTERVAL_SIZE")
    want = ["linear_indexes = self.linear_indexes",
            "linear_index = np.hstack([np.array(li) for li in linear_indexes])",
            "file_offsets = np.array([get_file_offset(vfp) for vfp in linear_index])",
            "contig_indexes = np.hstack([np.full(len(li), i) for i, li in enumerate(linear_indexes)])",
            "positions = np.hstack([np.arange(len(li)) * TABIX_LINEAR_INDEX_INTERVAL_SIZE + 1 for li in linear_indexes])",
            "return (file_offsets, contig_indexes, positions)"]
    if t != want:
        bad = next((a for a, b in zip(t + [""], want + [""]) if a != b), "")
        raise Unsupported("TabixIndex.offsets: " + bad[:160])
    return f"""(* TabixIndex.offsets: linear_indexes = per contig the virtual file offsets of the 16 kb windows *)
Definition gen_offsets_tbi (linear_indexes : list (list Z)) : list (Z * (Z * Z)) :=
  let linear_index := np_hstack linear_indexes in
  let file_offsets := map get_file_offset linear_index in
  let contig_indexes := np_hstack (mapi_from 0 (fun i li => np_full (zlen li) i) linear_indexes) in
  let positions := np_hstack (map (fun li => map (fun k => k * {interval} + 1) (np_arange (zlen li))) linear_indexes) in
  zip3 file_offsets contig_indexes positions.
"""


def main():
    out_dir = sys.argv[1]
    path = os.path.join(out_dir, "GenOffsets.v")
    try:
        tree = ast.parse(open(os.path.join(REPO, "bio2zarr/vcf_utils.py")).read())
        text = (f"(* GENERATED by translator/offs2coq.py from {REPO}/bio2zarr/vcf_utils.py: CSIIndex.offsets, TabixIndex.offsets *)\n"
                "From Coq Require Import ZArith List Bool.\nFrom B2Z Require Import Base.Prims Base.NpPrims Base.OffPrims Gen.GenBins.\nImport ListNotations.\nOpen Scope Z_scope.\n\n"
                + csi(tree) + "\n" + tbi(tree))
        status = "ok"
    except Unsupported as u:
        text = f"(* TRANSLATION FAILED (fail-closed): {u} *)\n"
        status = "unsupported: " + str(u)
    except (SyntaxError, OSError) as u:
        text = f"(* TRANSLATION FAILED (fail-closed): {type(u).__name__} *)\n"
        status = "unsupported: " + type(u).__name__ + ": " + str(u)
    old = open(path).read() if os.path.exists(path) else None
    if old != text:
        open(path, "w").write(text)
    print(json.dumps({"GenOffsets": status}))


if __name__ == "__main__":
    main()
