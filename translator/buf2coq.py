#!/venv/bin/python
"""buf2coq.py -- fail-closed translator for core.BufferedArray (the chunk buffer every encoder and
the PLINK conversion write through) and the two flush helpers, to Gallina (coq/Gen/GenBuffer.v).

The class is a small state machine over two integer fields (array_offset, buffer_row) and one
derived constant (variants_chunk_size = buff.shape[0] = min(array.chunks[0], array.shape[0]));
its only effect is the row-range write a flush hands to sync_flush_{1,2}d_array.  The translator
turns each method into a pure function  state -> state * result * list event  by walking the
statements in order:

  self.f = e / self.f += e        field update          (e over fields, locals, ints, + - * // %)
  x = e                           local binding
  if c: ... [else: ...]           conditional (both arms continue with the same code)
  self.m()                        call of another translated method (state and events threaded)
  sync_flush_Nd_array(self.buff[: self.buffer_row], self.array, self.array_offset)
                                  event  Write array_offset buffer_row   (N in {1, 2}; the 1-d / 2-d
                                  choice `if len(self.array.chunks) <= 1` must reach the same event)
  assert e                        check (Err on failure; only in __init__)
  return e                        result (last statement only)
  logger.* / docstrings           ignored

sync_flush_2d_array's column loop (while start < width: stop = min(start + step, width); write
[start, stop); start = stop) is translated to a fuelled function returning the column ranges, and
sync_flush_1d_array to the single slice write.  Anything else is Unsupported: the unit is not
emitted and Bridge/BridgeBuffer.v stops compiling.
"""
import ast
import json
import os
import sys

REPO = os.environ.get("VERIF_REPO", "/repo")


class Unsupported(Exception):
    pass


def src(n):
    return ast.unparse(n)


def find(tree, qual):
    node = tree
    for name in qual.split("."):
        for n in node.body:
            if isinstance(n, (ast.FunctionDef, ast.ClassDef)) and n.name == name:
                node = n
                break
        else:
            raise Unsupported("not found: " + qual)
    return node


def strip(body):
    out = []
    for s in body:
        if isinstance(s, ast.Expr) and isinstance(s.value, ast.Constant) and isinstance(s.value.value, str):
            continue
        if isinstance(s, ast.Expr) and isinstance(s.value, ast.Call) and src(s.value.func).startswith("logger."):
            continue
        out.append(s)
    return out


FIELDS = ("array_offset", "buffer_row")
BIN = {ast.Add: "+", ast.Sub: "-", ast.Mult: "*", ast.FloorDiv: "/", ast.Mod: "mod"}
CMP = {ast.Eq: "=?", ast.NotEq: "<>?", ast.Lt: "<?", ast.LtE: "<=?", ast.Gt: ">?", ast.GtE: ">=?"}


class Cls:
    def __init__(self, cls):
        self.cls = cls
        self.methods = {n.name: n for n in cls.body if isinstance(n, ast.FunctionDef)}
        self.props = {}
        for n in cls.body:
            if isinstance(n, ast.FunctionDef) and any(src(d) == "property" for d in n.decorator_list):
                b = strip(n.body)
                if len(b) == 1 and isinstance(b[0], ast.Return):
                    self.props[n.name] = src(b[0].value)

    def expr(self, e, locs):
        if isinstance(e, ast.Constant) and isinstance(e.value, int) and not isinstance(e.value, bool):
            return f"({e.value})" if e.value < 0 else str(e.value)
        if isinstance(e, ast.Name) and e.id in locs:
            return e.id
        if isinstance(e, ast.Attribute) and src(e.value) == "self":
            if e.attr in FIELDS:
                return f"({e.attr} s)"
            if self.props.get(e.attr) == "self.buff.shape[0]":
                return "h"
        if isinstance(e, ast.BinOp) and type(e.op) in BIN:
            return f"({self.expr(e.left, locs)} {BIN[type(e.op)]} {self.expr(e.right, locs)})"
        raise Unsupported("expression: " + src(e))

    def cond(self, e, locs):
        if isinstance(e, ast.Compare) and len(e.ops) == 1 and type(e.ops[0]) in CMP:
            a, b = self.expr(e.left, locs), self.expr(e.comparators[0], locs)
            if isinstance(e.ops[0], ast.NotEq):
                return f"(negb ({a} =? {b}))"
            return f"({a} {CMP[type(e.ops[0])]} {b})"
        raise Unsupported("condition: " + src(e))

    def is_flush_call(self, st):
        """sync_flush_Nd_array(self.buff[: self.buffer_row], self.array, self.array_offset)"""
        if isinstance(st, ast.Expr) and isinstance(st.value, ast.Call):
            c = st.value
            if src(c.func) in ("sync_flush_1d_array", "sync_flush_2d_array", getattr(self, "flush_alias", None)) and not c.keywords and len(c.args) == 3:
                if [src(a) for a in c.args] == ["self.buff[:self.buffer_row]", "self.array", "self.array_offset"]:
                    return src(c.func)
                raise Unsupported("flush helper arguments: " + src(c))
        return None

    def block(self, stmts, locs, k):
        """Coq term for `stmts` followed by continuation text k (which may use s, ev and the locals)"""
        stmts = strip(stmts)
        if not stmts:
            return k
        st, rest = stmts[0], stmts[1:]
        if isinstance(st, ast.Return):
            if rest:
                raise Unsupported("code after return")
            return f"(s, {self.expr(st.value, locs)}, ev)"
        if isinstance(st, ast.Assign) and len(st.targets) == 1 and not isinstance(st.value, ast.IfExp):
            t = st.targets[0]
            if isinstance(t, ast.Attribute) and src(t.value) == "self" and t.attr in FIELDS:
                return f"let s := set_{t.attr} s {self.expr(st.value, locs)} in\n  " + self.block(rest, locs, k)
            if isinstance(t, ast.Name):
                return f"let {t.id} := {self.expr(st.value, locs)} in\n  " + self.block(rest, locs | {t.id}, k)
        if isinstance(st, ast.AugAssign) and isinstance(st.target, ast.Attribute) and src(st.target.value) == "self" \
                and st.target.attr in FIELDS and type(st.op) in BIN:
            f = st.target.attr
            return f"let s := set_{f} s (({f} s) {BIN[type(st.op)]} {self.expr(st.value, locs)}) in\n  " + self.block(rest, locs, k)
        if isinstance(st, ast.Expr) and isinstance(st.value, ast.Call) and src(st.value.func).startswith("self.") \
                and not st.value.args and not st.value.keywords:
            m = src(st.value.func)[5:]
            if m not in self.methods or m == "next_buffer_row":
                raise Unsupported("call: " + src(st))
            return f"let '(s, ev1) := {m} h s in let ev := ev ++ ev1 in\n  " + self.block(rest, locs, k)
        fl = self.is_flush_call(st)
        if fl:
            return "let ev := ev ++ [Write (array_offset s) (buffer_row s)] in\n  " + self.block(rest, locs, k)
        if isinstance(st, ast.If) and not st.orelse and len(strip(st.body)) == 1 and isinstance(strip(st.body)[0], ast.Return) \
                and strip(st.body)[0].value is None:
            # guard clause:  if c: return   <rest>      ==   if c: pass else: <rest>      (methods without a result)
            if k != "(s, ev)":
                raise Unsupported("bare return in a method with a result")
            return f"(if {self.cond(st.test, locs)} then (s, ev) else\n  {self.block(rest, locs, k)})"
        if isinstance(st, ast.If) and src(st.test) == "len(self.array.chunks) <= 1" and len(strip(st.body)) == 1 and len(strip(st.orelse)) == 1:
            a, b = strip(st.body)[0], strip(st.orelse)[0]
            if isinstance(a, ast.Assign) and isinstance(b, ast.Assign) and src(a.targets[0]) == src(b.targets[0]) \
                    and isinstance(a.targets[0], ast.Name) and src(a.value) == "sync_flush_1d_array" and src(b.value) == "sync_flush_2d_array":
                # the 1-d / 2-d choice bound to a local name, called afterwards
                self.flush_alias = a.targets[0].id
                return self.block(rest, locs, k)
        if isinstance(st, ast.Assign) and isinstance(st.targets[0], ast.Name) and isinstance(st.value, ast.IfExp) \
                and src(st.value.test) == "len(self.array.chunks) <= 1" and src(st.value.body) == "sync_flush_1d_array" \
                and src(st.value.orelse) == "sync_flush_2d_array":
            self.flush_alias = st.targets[0].id
            return self.block(rest, locs, k)
        if isinstance(st, ast.If):
            # the 1-d / 2-d dispatch: both arms are the flush helper on the same arguments
            if src(st.test) == "len(self.array.chunks) <= 1" and len(strip(st.body)) == 1 and len(strip(st.orelse)) == 1:
                a, b = self.is_flush_call(strip(st.body)[0]), self.is_flush_call(strip(st.orelse)[0])
                if a == "sync_flush_1d_array" and b == "sync_flush_2d_array":
                    return "let ev := ev ++ [Write (array_offset s) (buffer_row s)] in\n  " + self.block(rest, locs, k)
                raise Unsupported("1-d / 2-d dispatch: " + src(st)[:120])
            c = self.cond(st.test, locs)
            for b in (st.body, st.orelse):
                for x in ast.walk(ast.Module(body=list(b), type_ignores=[])):
                    if isinstance(x, ast.Return):
                        raise Unsupported("return inside a conditional")
                    if isinstance(x, ast.Assign) and isinstance(x.targets[0], ast.Name):
                        raise Unsupported("local assigned inside a conditional")
            then = self.block(st.body, locs, "(s, ev)")
            els = self.block(st.orelse, locs, "(s, ev)")
            return f"let '(s, ev) := (if {c} then\n  {then}\n  else {els}) in\n  " + self.block(rest, locs, k)
        raise Unsupported("statement: " + src(st)[:120])

    def method(self, name, has_result):
        fn = self.methods.get(name)
        if fn is None:
            raise Unsupported("no method " + name)
        if [a.arg for a in fn.args.args] != ["self"]:
            raise Unsupported(name + ": parameters")
        body = self.block(fn.body, set(), "(s, ev)")
        ty = "bstate * Z * list bevent" if has_result else "bstate * list bevent"
        return f"Definition {name} (h : Z) (s : bstate) : {ty} :=\n  let ev := @nil bevent in\n  {body}.\n"

    def init(self):
        fn = self.methods.get("__init__")
        if fn is None or [a.arg for a in fn.args.args] != ["self", "array", "offset"]:
            raise Unsupported("__init__ signature")
        seen = {}
        height = None
        for st in strip(fn.body):
            t = src(st)
            if t == "self.array = array":
                continue
            if t == "self.array_offset = offset":
                seen["array_offset"] = "offset"
            elif t == "assert offset % array.chunks[0] == 0":
                seen["assert"] = True
            elif t == "dims = list(array.shape)":
                seen["dims"] = True
            elif t == "dims[0] = min(array.chunks[0], array.shape[0])" and seen.get("dims"):
                height = "Z.min chunk0 shape0"
            elif t == "self.buff = np.empty(dims, dtype=array.dtype)" and height:
                seen["buff"] = True
            elif t == "self.buff[:] = 0":
                continue
            elif t == "self.buffer_row = 0":
                seen["buffer_row"] = "0"
            else:
                raise Unsupported("__init__: " + t[:100])
        if not (seen.get("array_offset") and seen.get("assert") and seen.get("buff") and seen.get("buffer_row")):
            raise Unsupported("__init__: incomplete")
        return ("(* __init__(array, offset): chunk0 = array.chunks[0], shape0 = array.shape[0]; returns the state and the\n"
                "   buffer height variants_chunk_size = buff.shape[0] *)\n"
                "Definition init (chunk0 shape0 offset : Z) : res (bstate * Z) :=\n"
                "  if offset mod chunk0 =? 0 then Ok ({| array_offset := offset; buffer_row := 0 |}, " + height + ")\n"
                "  else Err E_AssertionError.\n")


def flush_helpers(tree):
    f1 = find(tree, "sync_flush_1d_array")
    b = [src(s) for s in strip(f1.body)]
    if [a.arg for a in f1.args.args] != ["np_buffer", "zarr_array", "offset"] or \
            b != ["zarr_array[offset:offset + np_buffer.shape[0]] = np_buffer", "update_progress(np_buffer.nbytes)"]:
        raise Unsupported("sync_flush_1d_array shape")
    f2 = find(tree, "sync_flush_2d_array")
    b = [src(s) for s in strip(f2.body)]
    want = ["s = slice(offset, offset + np_buffer.shape[0])", "samples_chunk_size = zarr_array.chunks[1]",
            "zarr_array_width = zarr_array.shape[1]", "start = 0",
            "while start < zarr_array_width:\n    stop = min(start + samples_chunk_size, zarr_array_width)\n    chunk_buffer = np_buffer[:, start:stop]\n"
            "    zarr_array[s, start:stop] = chunk_buffer\n    update_progress(chunk_buffer.nbytes)\n    start = stop"]
    if [a.arg for a in f2.args.args] != ["np_buffer", "zarr_array", "offset"] or b != want:
        raise Unsupported("sync_flush_2d_array shape")
    return ("(* sync_flush_1d_array: rows [offset, offset + n) in one write.\n"
            "   sync_flush_2d_array: the same rows, column ranges [start, stop) with\n"
            "   while start < width: stop = min(start + step, width); write; start = stop *)\n"
            "Fixpoint flush_cols (fuel : nat) (start step width : Z) : list (Z * Z) :=\n"
            "  match fuel with\n"
            "  | O => []\n"
            "  | S fuel' => if start <? width then let stop := Z.min (start + step) width in (start, stop) :: flush_cols fuel' stop step width\n"
            "               else []\n"
            "  end.\n")


def translate():
    tree = ast.parse(open(os.path.join(REPO, "bio2zarr/core.py")).read())
    c = Cls(find(tree, "BufferedArray"))
    if c.props.get("variants_chunk_size") != "self.buff.shape[0]":
        raise Unsupported("variants_chunk_size is not buff.shape[0]")
    parts = [
        "Record bstate := { array_offset : Z; buffer_row : Z }.\n"
        "Definition set_array_offset (s : bstate) (v : Z) : bstate := {| array_offset := v; buffer_row := buffer_row s |}.\n"
        "Definition set_buffer_row (s : bstate) (v : Z) : bstate := {| array_offset := array_offset s; buffer_row := v |}.\n"
        "(* the only effect: rows [offset, offset + nrows) of the array are written from the buffer *)\n"
        "Inductive bevent := Write (offset nrows : Z).\n",
        c.init(),
        c.method("flush", False),
        c.method("next_buffer_row", True),
        flush_helpers(tree),
    ]
    return parts


def main():
    out_dir = sys.argv[1]
    path = os.path.join(out_dir, "GenBuffer.v")
    try:
        parts = translate()
        text = (f"(* GENERATED by translator/buf2coq.py from {REPO}/bio2zarr/core.py: BufferedArray and the flush helpers *)\n"
                "From Coq Require Import ZArith List Bool.\nFrom B2Z Require Import Base.Prims.\nImport ListNotations.\nOpen Scope Z_scope.\n\n"
                + "\n".join(parts))
        status = "ok"
    except Unsupported as u:
        text = f"(* TRANSLATION FAILED (fail-closed): {u} *)\n"
        status = "unsupported: " + str(u)
    except (SyntaxError, OSError) as u:
        text = f"(* TRANSLATION FAILED (fail-closed): {type(u).__name__} *)\n"
        status = "unsupported: " + type(u).__name__ + ": " + str(u)
    old = open(path).read() if os.path.exists(path) else None
    if old != text:
        open(path, "w").write(text)
    print(json.dumps({"GenBuffer": status}))


if __name__ == "__main__":
    main()
