#!/venv/bin/python
"""proto2coq.py -- fail-closed translator from the protocol commands of the distributed explode
(icf.py: IntermediateColumnarFormatWriter.init / explode_partition / finalise) and the distributed
encode (vcz.py: VcfZarrWriter.init / encode_partition / finalise) to *effect lists* in the language
of coq/Base/Eff.v  (coq/Gen/GenIcfProtocol.v, coq/Gen/GenVczProtocol.v, regenerated on every run).

Each command's body is walked statement by statement in program order; methods of the same class
are inlined; every path expression is resolved (through __init__, the path helper methods and local
assignments) to a canonical component tuple and then to a symbol of Eff.sym.  Emitted are exactly:
guards that can raise, file-system effects, and opaque data phases.  Everything else has to be
recognisably free of file-system effects (no effect token, every call on an allow-list), otherwise
the translation fails closed: the unit becomes a comment, Bridge/BridgeIcfProtocol.v / BridgeVczProtocol.v stops compiling,
and the C05 / C06 checks go to their failing-input search.

usage: proto2coq.py <coq/Gen dir>
"""
import ast
import json
import os
import re
import sys

REPO = os.environ.get("VERIF_REPO", "/repo")


class Unsupported(Exception):
    pass


# ----------------------------------------------------------------------------------------------
# canonical component tuples -> symbols
ICF_SYMS = {
    (): "IRoot",
    ("wip",): "IWip",
    ("header.txt",): "IHeader",
    ("wip", "metadata.json"): "IWipMeta",
    ("metadata.json",): "IFinalMeta",
    ("wip", "p{J}.json"): "ISummaryCur",
    ("wip", "p{L}.json"): "ISummaryLoop",
}
VCZ_SYMS = {
    (): "ZRoot",
    ("wip",): "ZWip",
    ("wip", "arrays"): "ZArrays",
    ("wip", "partitions"): "ZParts",
    ("wip", "metadata.json"): "ZMeta",
    ("wip", "partitions", "wip_p{J}"): "ZWipDirCur",
    ("wip", "partitions", "p{J}"): "ZFinDirCur",
    ("wip", "partitions", "stale_p{J}"): "ZStaleDirCur",
    ("wip", "partitions", "p{L}"): "ZFinDirLoop",
    ("wip", "partitions", "p{L}", "{A}"): "ZSrcArr",
    ("wip", "arrays", "{A}"): "ZArrTmpl",
    ("{A}",): "ZFinalArr",
}

# tokens that mean "this statement touches the file system / zarr" -- such a statement must be one
# of the recognised effect shapes
EFFECT_TOKENS = re.compile(
    r"\bopen\(|\bos\.|\bshutil\.|\.mkdir\(|\.unlink\(|\.rename\(|\.replace\(|\.rmdir\(|\.touch\(|\.write_text\(|"
    r"\.write_bytes\(|\bzarr\.|\.exists\(|\.iterdir\(|\.symlink_to\(|\.hardlink_to\(|\btempfile\.|\bsubprocess\.|\.glob\(|\.chmod\("
)
# calls that are free of effects on the output directory
PURE_FUNCS = {
    "len", "max", "min", "sum", "any", "all", "abs", "tuple", "set", "zip", "range", "enumerate", "str", "int", "float", "list", "dict", "sorted", "isinstance",
    "np.isinf", "json.dump", "json.load", "pathlib.Path", "logger.info", "logger.debug", "logger.warning",
    "scan_vcfs", "check_field_clobbering", "check_overlapping_partitions", "get_vcf_field_path",
    "IcfPartitionMetadata", "IcfWriteSummary", "IcfMetadata.fromdict", "IcfPartitionMetadata.fromdict",
    "VcfZarrWriterMetadata", "VcfZarrWriterMetadata.fromdict", "VcfZarrPartition.generate_partitions",
    "VcfZarrWriteSummary", "core.display_size", "core.ProgressConfig", "core.update_progress", "icf.IntermediateColumnarFormat",
    "ValueError", "FileNotFoundError", "RuntimeError", "AssertionError",
}
PURE_METHODS = {
    "update", "append", "asdict", "asjson", "get_config", "validate", "write", "read", "fromdict", "fromjson",
    "format", "index", "items", "keys", "values", "get", "startswith", "has_genotypes",
}
# raising checks on data (no effect on the output directory)
CHECK_FUNCS = {"scan_vcfs", "check_field_clobbering", "check_overlapping_partitions", "VcfZarrPartition.generate_partitions"}
CHECK_METHODS = {"validate"}


def find(tree, qual):
    node = tree
    for name in qual.split("."):
        for n in node.body:
            if isinstance(n, (ast.FunctionDef, ast.ClassDef)) and n.name == name:
                node = n
                break
        else:
            raise Unsupported("not found: " + qual)
    return node


def src(n):
    return ast.unparse(n)


def is_logging(st):
    return isinstance(st, ast.Expr) and isinstance(st.value, ast.Call) and src(st.value.func).startswith("logger.")


def is_doc(st):
    return isinstance(st, ast.Expr) and isinstance(st.value, ast.Constant) and isinstance(st.value.value, str)


def strip(body):
    return [s for s in body if not is_logging(s) and not is_doc(s) and not isinstance(s, ast.Pass)]


class Proto:
    def __init__(self, tree, cls_name, syms, writer_ctx, data_methods):
        self.cls = find(tree, cls_name)
        self.syms = syms
        self._pure_stack = []
        self.writer_ctx = writer_ctx  # name of the context manager that writes a partition's data
        self.data_methods = data_methods  # regexp of self.<method> calls that write a partition's data
        self.methods = {n.name: n for n in self.cls.body if isinstance(n, ast.FunctionDef)}
        self.props = {
            n.name for n in self.cls.body
            if isinstance(n, ast.FunctionDef) and any(src(d) == "property" for d in n.decorator_list)
        }
        # self.<attr> path attributes from __init__
        self.attrs = {}
        init = self.methods.get("__init__")
        if init is None:
            raise Unsupported("no __init__")
        for st in strip(init.body):
            if isinstance(st, ast.Assign) and len(st.targets) == 1 and src(st.targets[0]).startswith("self."):
                name = src(st.targets[0])[5:]
                v = st.value
                if src(v) in ("pathlib.Path(path)",):
                    self.attrs[name] = ()
                else:
                    p = self.path_of(v, {}, {})
                    if p is not None:
                        self.attrs[name] = p
        if self.attrs.get("path") != ():
            raise Unsupported("self.path is not pathlib.Path(path)")
        # path helper methods: def m(self, a, b): return <path expr>
        self.path_methods = {}
        for name, fn in self.methods.items():
            body = strip(fn.body)
            if len(body) == 1 and isinstance(body[0], ast.Return) and body[0].value is not None and name not in self.props:
                params = [a.arg for a in fn.args.args[1:]]
                self.path_methods[name] = (params, body[0].value)

    # -- paths --------------------------------------------------------------------------------
    def hole(self, e, kinds):
        """the kind of an index expression inside an f-string / helper argument"""
        s = src(e)
        if s in kinds:
            return kinds[s]
        return None

    def path_of(self, e, env, kinds):
        """component tuple of a path expression, or None if e is not a path expression"""
        s = src(e)
        if isinstance(e, ast.Name) and e.id in env:
            return env[e.id]
        if isinstance(e, ast.Attribute) and isinstance(e.value, ast.Name) and e.value.id == "self" and e.attr in self.attrs:
            return self.attrs[e.attr]
        if isinstance(e, ast.BinOp) and isinstance(e.op, ast.Div):
            base = self.path_of(e.left, env, kinds)
            if base is None:
                return None
            r = e.right
            if isinstance(r, ast.Constant) and isinstance(r.value, str):
                return base + (r.value,)
            if isinstance(r, ast.JoinedStr):
                out = ""
                for v in r.values:
                    if isinstance(v, ast.Constant):
                        out += v.value
                    elif isinstance(v, ast.FormattedValue) and v.format_spec is None and v.conversion == -1:
                        k = self.hole(v.value, kinds)
                        if k is None:
                            raise Unsupported("path component with an unknown index: " + s)
                        out += "{" + k + "}"
                    else:
                        raise Unsupported("path component: " + s)
                return base + (out,)
            k = self.hole(r, kinds)
            if k is not None:
                return base + ("{" + k + "}",)
            raise Unsupported("path component: " + s)
        if isinstance(e, ast.Call) and isinstance(e.func, ast.Attribute) and src(e.func.value) == "self" and e.func.attr in getattr(self, "path_methods", {}):
            params, body = self.path_methods[e.func.attr]
            if len(e.args) != len(params) or e.keywords:
                raise Unsupported("path helper call: " + s)
            sub = {}
            for p, a in zip(params, e.args):
                k = self.hole(a, kinds)
                if k is None:
                    raise Unsupported("path helper argument with an unknown index: " + s)
                sub[p] = k
            try:
                return self.path_of(body, {}, sub)
            except Unsupported:
                raise
        return None

    def sym(self, e, env, kinds):
        p = self.path_of(e, env, kinds)
        if p is None:
            raise Unsupported("not a path: " + src(e))
        if p not in self.syms:
            raise Unsupported("unknown path " + "/".join(p) + " in " + src(e))
        return self.syms[p]

    # -- purity -------------------------------------------------------------------------------
    def check_pure(self, node, what):
        text = src(node)
        if EFFECT_TOKENS.search(text):
            raise Unsupported(f"unrecognised effect in {what}: {text[:120]}")
        for c in ast.walk(node):
            if isinstance(c, ast.Call):
                f = src(c.func)
                if f in PURE_FUNCS:
                    continue
                if isinstance(c.func, ast.Attribute):
                    if src(c.func.value) == "self":
                        if c.func.attr in self.path_methods or c.func.attr in PURE_METHODS:
                            continue
                        if c.func.attr in self.methods and c.func.attr not in self._pure_stack:
                            # a method of the class used as a value: its whole body has to be effect-free
                            self._pure_stack.append(c.func.attr)
                            try:
                                for s2 in strip(self.methods[c.func.attr].body):
                                    self.check_pure(s2, "method " + c.func.attr)
                            finally:
                                self._pure_stack.pop()
                            continue
                        raise Unsupported(f"method call in {what}: {text[:120]}")
                    if c.func.attr in PURE_METHODS:
                        continue
                raise Unsupported(f"call not known to be effect-free in {what}: {f}")

    def raises_check(self, node):
        for c in ast.walk(node):
            if isinstance(c, ast.Call):
                f = src(c.func)
                if f in CHECK_FUNCS or (isinstance(c.func, ast.Attribute) and c.func.attr in CHECK_METHODS):
                    return True
            if isinstance(c, (ast.Assert, ast.Raise)):
                return True
        return False

    # -- statements ---------------------------------------------------------------------------
    def walk(self, body, env, kinds, depth=0):
        out = []
        body = strip(body)
        i = 0
        while i < len(body):
            st = body[i]
            nxt = body[i + 1] if i + 1 < len(body) else None
            i += 1
            text = src(st)
            # ---- return
            if isinstance(st, ast.Return):
                if st.value is not None:
                    self.check_pure(st.value, "return")
                if i < len(body):
                    raise Unsupported("code after return")
                break
            # ---- self.method(...) statement
            if isinstance(st, ast.Expr) and isinstance(st.value, ast.Call) and isinstance(st.value.func, ast.Attribute) \
                    and src(st.value.func.value) == "self":
                name = st.value.func.attr
                if re.fullmatch(self.data_methods, name):
                    if not out or out[-1] != "WriteData":
                        out.append("WriteData")
                    continue
                if name in ("encode_samples", "encode_filter_id", "encode_contig_id") and src(st.value.args[0]) in env.get("__zroot__", ()):
                    if not out or out[-1] != "ZarrRootInit":
                        out.append("ZarrRootInit")
                    continue
                if name in self.methods and name not in PURE_METHODS:
                    out += self.inline(name, st.value, env, kinds, depth)
                    continue
            # ---- path.mkdir() / path.unlink() / os.rename / shutil.rmtree
            if isinstance(st, ast.Expr) and isinstance(st.value, ast.Call):
                c = st.value
                f = src(c.func)
                if isinstance(c.func, ast.Attribute) and c.func.attr == "mkdir" and not c.args and not c.keywords:
                    out.append(f"Mkdir {self.sym(c.func.value, env, kinds)}")
                    continue
                if f == "os.rename" and len(c.args) == 2 and not c.keywords:
                    out.append(f"Rename {self.sym(c.args[0], env, kinds)} {self.sym(c.args[1], env, kinds)}")
                    continue
                if f == "shutil.rmtree" and len(c.args) == 1 and not c.keywords:
                    out.append(f"Rmtree {self.sym(c.args[0], env, kinds)}")
                    continue
                if f == "zarr.consolidate_metadata" and len(c.args) == 1 and self.sym(c.args[0], env, kinds) == "ZRoot":
                    out.append("Consolidate")
                    continue
                if isinstance(c.func, ast.Attribute) and src(c.func.value) in (r + ".attrs" for r in env.get("__zroot__", ())) and c.func.attr == "update":
                    if not out or out[-1] != "ZarrRootInit":
                        out.append("ZarrRootInit")
                    continue
            # ---- assignments
            if isinstance(st, (ast.Assign, ast.AnnAssign, ast.AugAssign)):
                value = st.value
                targets = st.targets if isinstance(st, ast.Assign) else [st.target]
                if isinstance(st, ast.Assign) and len(targets) == 1 and isinstance(targets[0], ast.Name):
                    # root = zarr.open(store=<path>, mode="a", ...)
                    if isinstance(value, ast.Call) and src(value.func) == "zarr.open":
                        kw = {k.arg: k.value for k in value.keywords}
                        if value.args or "store" not in kw or src(kw.get("mode", ast.Constant(""))) != "'a'":
                            raise Unsupported("zarr.open shape: " + text)
                        where = self.sym(kw["store"], env, kinds)
                        if where == "ZRoot":
                            env = dict(env, __zroot__=env.get("__zroot__", ()) + (targets[0].id,))
                            env.pop("__zarrays__", None)
                            if not out or out[-1] != "ZarrRootInit":
                                out.append("ZarrRootInit")
                        elif where == "ZArrays":
                            env = dict(env, __zarrays__=targets[0].id, __zroot__=tuple(x for x in env.get("__zroot__", ()) if x != targets[0].id))
                        else:
                            raise Unsupported("zarr.open on " + where)
                        continue
                    # missing = [l for l in range(self.num_partitions) if not P(l).exists()]   + if len(missing) > 0: raise
                    if isinstance(value, ast.ListComp) and len(value.generators) == 1 and src(value.generators[0].iter) == "range(self.num_partitions)" \
                            and len(value.generators[0].ifs) == 1 and src(value.elt) == src(value.generators[0].target):
                        g = value.generators[0]
                        k2 = dict(kinds)
                        k2[src(g.target)] = "L"
                        t = g.ifs[0]
                        if isinstance(t, ast.UnaryOp) and isinstance(t.op, ast.Not) and isinstance(t.operand, ast.Call) \
                                and isinstance(t.operand.func, ast.Attribute) and t.operand.func.attr == "exists" \
                                and nxt is not None and self.is_nonempty_raise(nxt, targets[0].id):
                            out.append(f"GuardAllPresent {self.sym(t.operand.func.value, env, k2)}")
                            i += 1
                            continue
                        raise Unsupported("presence comprehension shape: " + text[:160])
                    # x = self.method(...)   (a method of the class that is not a path helper): inlined
                    if isinstance(value, ast.Call) and isinstance(value.func, ast.Attribute) and src(value.func.value) == "self" \
                            and value.func.attr in self.methods and value.func.attr not in self.path_methods \
                            and value.func.attr not in PURE_METHODS and value.func.attr != "init_array":
                        out += self.inline(value.func.attr, value, env, kinds, depth)
                        continue
                    p = self.path_of(value, env, kinds)
                    if p is not None:
                        env = dict(env)
                        env[targets[0].id] = p
                        continue
                self.check_pure(st, "assignment")
                if self.raises_check(st):
                    out.append("PureCheck")
                continue
            if isinstance(st, ast.Expr):
                self.check_pure(st, "expression statement")
                if self.raises_check(st):
                    out.append("PureCheck")
                continue
            if isinstance(st, ast.Assert):
                self.check_pure(st, "assert")
                out.append("PureCheck")
                continue
            # ---- if
            if isinstance(st, ast.If):
                t = st.test
                b = strip(st.body)
                # if X.exists(): ...
                if isinstance(t, ast.Call) and isinstance(t.func, ast.Attribute) and t.func.attr == "exists" and not st.orelse:
                    x = self.sym(t.func.value, env, kinds)
                    if len(b) == 1 and isinstance(b[0], ast.Raise):
                        out.append(f"GuardAbsent {x}")
                        continue
                    if len(b) == 1 and isinstance(b[0], ast.Expr) and isinstance(b[0].value, ast.Call):
                        c = b[0].value
                        f = src(c.func)
                        if isinstance(c.func, ast.Attribute) and c.func.attr == "unlink" and not c.args and self.sym(c.func.value, env, kinds) == x:
                            out.append(f"UnlinkIfExists {x}")
                            continue
                        if f == "shutil.rmtree" and len(c.args) == 1 and not c.keywords and self.sym(c.args[0], env, kinds) == x:
                            out.append(f"RmtreeIfExists {x}")
                            continue
                        if f == "os.rename" and len(c.args) == 2 and self.sym(c.args[0], env, kinds) == x:
                            out.append(f"RenameIfExists {x} {self.sym(c.args[1], env, kinds)}")
                            continue
                    raise Unsupported("if <path>.exists() body: " + text[:160])
                # if self.metadata is None: <load>   (first use in a fresh process: taken)
                if src(t) == "self.metadata is None" and not st.orelse:
                    out += self.walk(st.body, env, kinds, depth)
                    continue
                # range guard on the command's partition
                if not st.orelse and len(b) == 1 and isinstance(b[0], ast.Raise) and self.is_range_guard(t, kinds):
                    out.append("GuardRange")
                    continue
                # if self.has_genotypes(): self.encode_genotypes_partition(..)   and similar data phases
                sub_then = self.walk(st.body, env, kinds, depth)
                sub_else = self.walk(st.orelse, env, kinds, depth) if st.orelse else []
                self.check_pure(t, "if test")
                if set(sub_then) <= {"WriteData"} and set(sub_else) <= {"WriteData"} and (sub_then or sub_else):
                    if not out or out[-1] != "WriteData":
                        out.append("WriteData")
                    continue
                if set(sub_then) <= {"PureCheck"} and set(sub_else) <= {"PureCheck"}:
                    if sub_then or sub_else or any(isinstance(x, ast.Raise) for x in ast.walk(st)):
                        out.append("PureCheck")
                    continue
                raise Unsupported("conditional effect: " + text[:160])
            # ---- with
            if isinstance(st, ast.With):
                if len(st.items) != 1:
                    raise Unsupported("with items")
                ce = st.items[0].context_expr
                if isinstance(ce, ast.Call) and src(ce.func) == "open":
                    mode = None
                    if len(ce.args) == 2 and isinstance(ce.args[1], ast.Constant):
                        mode = ce.args[1].value
                    elif len(ce.args) == 1 and not ce.keywords:
                        mode = "r"
                    if mode not in ("r", "w"):
                        raise Unsupported("open mode: " + src(ce))
                    x = self.sym(ce.args[0], env, kinds)
                    for s2 in strip(st.body):
                        self.check_pure(s2, "body of with open")
                    out.append(("WriteFile " if mode == "w" else "ReadFile ") + x)
                    if mode == "r" and "icf.IntermediateColumnarFormat" in text:
                        pass
                    continue
                if isinstance(ce, ast.Call) and src(ce.func) == self.writer_ctx:
                    btxt = "\n".join(src(s2) for s2 in st.body)
                    if EFFECT_TOKENS.search(btxt) or re.search(r"\bself\.(?!metadata\b|path\b)\w+\(", btxt):
                        raise Unsupported("effect inside the partition writer block")
                    args = [src(a) for a in ce.args]
                    if len(args) != 3 or args[1] != "self.path" or kinds.get(args[2]) != "J":
                        raise Unsupported("partition writer arguments: " + src(ce))
                    out.append("WriteData")
                    continue
                if isinstance(ce, ast.Call) and src(ce.func) == "core.ParallelWorkManager":
                    b = strip(st.body)
                    if (len(b) == 1 and isinstance(b[0], ast.For) and src(b[0].iter) == "self.schema.fields"
                            and len(strip(b[0].body)) == 1):
                        inner = strip(b[0].body)[0]
                        var = src(b[0].target)
                        m = isinstance(inner, ast.Expr) and isinstance(inner.value, ast.Call) and src(inner.value.func) == st.items[0].optional_vars.id + ".submit"
                        if m and len(inner.value.args) == 2 and src(inner.value.args[0]) == "self.finalise_array" and src(inner.value.args[1]) == var + ".name":
                            for a in list(ce.args) + [k.value for k in ce.keywords]:
                                self.check_pure(a, "work manager construction")
                            out.append("ForArrays [" + "; ".join(self.array_body("finalise_array")) + "]")
                            continue
                    raise Unsupported("work manager block: " + text[:160])
                raise Unsupported("with: " + src(ce)[:120])
            # ---- for
            if isinstance(st, ast.For):
                it = src(st.iter)
                b = strip(st.body)
                var = src(st.target)
                # for field in self.metadata.fields: p = get_vcf_field_path(self.path, field); p.mkdir(parents=True)
                if it == "self.metadata.fields" and len(b) == 2 and isinstance(b[0], ast.Assign) \
                        and src(b[0].value) == f"get_vcf_field_path(self.path, {var})" \
                        and src(b[1]) == f"{src(b[0].targets[0])}.mkdir(parents=True)":
                    out.append("MkdirFields")
                    continue
                # for l in range(self.num_partitions): try: with open(wip/p{l}.json) ... except FileNotFoundError: nf.append(l)
                #   followed by  if len(nf) > 0: raise
                if it == "range(self.num_partitions)" and len(b) == 1 and isinstance(b[0], ast.Try):
                    tr = b[0]
                    k2 = dict(kinds)
                    k2[var] = "L"
                    tb = strip(tr.body)
                    ok = (len(tb) == 1 and isinstance(tb[0], ast.With) and len(tr.handlers) == 1 and not tr.orelse and not tr.finalbody
                          and src(tr.handlers[0].type) == "FileNotFoundError")
                    if ok:
                        sub = self.walk(tb, env, k2, depth)
                        hb = strip(tr.handlers[0].body)
                        m = len(hb) == 1 and re.fullmatch(r"(\w+)\.append\(" + re.escape(var) + r"\)", src(hb[0]))
                        if sub == ["ReadFile ISummaryLoop"] and m and nxt is not None and self.is_nonempty_raise(nxt, m.group(1)):
                            out.append("ReadAllSummaries")
                            i += 1
                            continue
                    raise Unsupported("summary loop shape")
                # for l in range(self.num_partitions): if not P(l).exists(): missing.append(l)   + if len(missing) > 0: raise
                if it == "range(self.num_partitions)" and len(b) == 1 and isinstance(b[0], ast.If) and not b[0].orelse:
                    k2 = dict(kinds)
                    k2[var] = "L"
                    t = b[0].test
                    if isinstance(t, ast.UnaryOp) and isinstance(t.op, ast.Not) and isinstance(t.operand, ast.Call) \
                            and isinstance(t.operand.func, ast.Attribute) and t.operand.func.attr == "exists":
                        x = self.sym(t.operand.func.value, env, k2)
                        hb = strip(b[0].body)
                        m = len(hb) == 1 and re.fullmatch(r"(\w+)\.append\(" + re.escape(var) + r"\)", src(hb[0]))
                        if m and nxt is not None and self.is_nonempty_raise(nxt, m.group(1)):
                            out.append(f"GuardAllPresent {x}")
                            i += 1
                            continue
                    raise Unsupported("presence loop shape")
                # for field in self.schema.fields: a = self.init_array(root, field, ...); total += a.nchunks
                if it == "self.schema.fields" and "__zarrays__" in env and any(
                        isinstance(c, ast.Call) and src(c.func) == "self.init_array" and c.args and src(c.args[0]) == env["__zarrays__"]
                        for c in ast.walk(st)):
                    rest = re.sub(r"self\.init_array\(", "PURE(", text)
                    if EFFECT_TOKENS.search(rest) or re.search(r"\bself\.\w+\(", rest):
                        raise Unsupported("array template loop: " + text[:160])
                    out.append("ZarrArrayTemplates")
                    continue
                sub = self.walk(st.body, env, kinds, depth)
                self.check_pure(st.iter, "for iterable")
                if st.orelse:
                    raise Unsupported("for-else")
                if set(sub) <= {"WriteData"} and sub:
                    if not out or out[-1] != "WriteData":
                        out.append("WriteData")
                    continue
                if set(sub) <= {"PureCheck"}:
                    if sub:
                        out.append("PureCheck")
                    continue
                raise Unsupported("loop with effects: " + text[:160])
            raise Unsupported("statement: " + text[:160])
        return out

    def is_range_guard(self, t, kinds):
        if not (isinstance(t, ast.BoolOp) and isinstance(t.op, ast.Or) and len(t.values) == 2):
            return False
        a, b = t.values
        if not (isinstance(a, ast.Compare) and isinstance(b, ast.Compare)):
            return False
        va = src(a.left)
        return (kinds.get(va) == "J" and src(a) == f"{va} < 0" and src(b) == f"{va} >= self.num_partitions")

    def is_nonempty_raise(self, st, name):
        return (isinstance(st, ast.If) and not st.orelse and src(st.test) == f"len({name}) > 0"
                and len(strip(st.body)) == 1 and isinstance(strip(st.body)[0], ast.Raise))

    def inline(self, name, call, env, kinds, depth):
        if depth > 4:
            raise Unsupported("inlining depth")
        fn = self.methods[name]
        params = [a.arg for a in fn.args.args[1:]]
        if len(call.args) > len(params) or call.keywords or fn.args.kwonlyargs or fn.args.vararg or fn.args.kwarg:
            raise Unsupported("call shape: " + src(call))
        k2 = {}
        for p, a in zip(params, call.args):
            k = kinds.get(src(a))
            if k is not None:
                k2[p] = k
            else:
                self.check_pure(a, "argument")
        return self.walk(fn.body, {}, k2, depth + 1)

    # finalise_array(name): aeff list
    def array_body(self, name):
        fn = self.methods.get(name)
        if fn is None:
            raise Unsupported("no " + name)
        params = [a.arg for a in fn.args.args[1:]]
        if len(params) != 1:
            raise Unsupported(name + " parameters")
        kinds = {params[0]: "A"}
        env = {}
        out = []
        for st in strip(fn.body):
            text = src(st)
            if isinstance(st, ast.Assign) and len(st.targets) == 1 and isinstance(st.targets[0], ast.Name):
                p = self.path_of(st.value, env, kinds)
                if p is not None:
                    env[st.targets[0].id] = p
                    continue
                self.check_pure(st, "assignment")
                continue
            if isinstance(st, ast.If) and not st.orelse and isinstance(st.test, ast.Call) and isinstance(st.test.func, ast.Attribute) \
                    and st.test.func.attr == "exists" and len(strip(st.body)) == 1 and isinstance(strip(st.body)[0], ast.Raise):
                out.append(f"AGuardAbsent {self.sym(st.test.func.value, env, kinds)}")
                continue
            if isinstance(st, ast.For) and src(st.iter) == "range(self.num_partitions)" and not st.orelse:
                k2 = dict(kinds)
                k2[src(st.target)] = "L"
                out.append("AForParts [" + "; ".join(self.part_body(st.body, dict(env), k2)) + "]")
                continue
            if isinstance(st, ast.Expr) and isinstance(st.value, ast.Call) and src(st.value.func) == "os.rename" and len(st.value.args) == 2:
                out.append(f"ARename {self.sym(st.value.args[0], env, kinds)} {self.sym(st.value.args[1], env, kinds)}")
                continue
            if isinstance(st, ast.Expr):
                self.check_pure(st, "expression statement")
                out.append("APure")
                continue
            raise Unsupported(name + ": " + text[:160])
        return out

    def part_body(self, body, env, kinds):
        out = []
        body = strip(body)
        i = 0
        while i < len(body):
            st = body[i]
            i += 1
            text = src(st)
            if isinstance(st, ast.Assign) and len(st.targets) == 1 and isinstance(st.targets[0], ast.Name):
                tgt = st.targets[0].id
                p = self.path_of(st.value, env, kinds)
                if p is not None:
                    env[tgt] = p
                    continue
                # files = [path for path in src.iterdir() if not path.name.startswith(".")]
                v = st.value
                if isinstance(v, ast.ListComp) and len(v.generators) == 1:
                    g = v.generators[0]
                    var = src(g.target)
                    if (src(v.elt) == var and isinstance(g.iter, ast.Call) and isinstance(g.iter.func, ast.Attribute)
                            and g.iter.func.attr == "iterdir" and len(g.ifs) == 1
                            and src(g.ifs[0]) == f"not {var}.name.startswith('.')"):
                        env["__listing__"] = (tgt, self.sym(g.iter.func.value, env, kinds))
                        continue
                raise Unsupported("finalise_array partition loop assignment: " + text[:160])
            if isinstance(st, ast.If) and not st.orelse and isinstance(st.test, ast.UnaryOp) and isinstance(st.test.op, ast.Not) \
                    and isinstance(st.test.operand, ast.Call) and isinstance(st.test.operand.func, ast.Attribute) \
                    and st.test.operand.func.attr == "exists" and len(strip(st.body)) == 1 and isinstance(strip(st.body)[0], ast.Raise):
                out.append(f"PGuardPresent {self.sym(st.test.operand.func.value, env, kinds)}")
                continue
            if isinstance(st, ast.Expr) and isinstance(st.value, ast.Call) and isinstance(st.value.func, ast.Attribute) \
                    and src(st.value.func.value) == "self" and st.value.func.attr in self.methods \
                    and st.value.func.attr not in self.path_methods and not st.value.keywords:
                # a helper method of the class called from the loop body: inlined, its parameters bound to the caller's indexes
                fn = self.methods[st.value.func.attr]
                params = [a.arg for a in fn.args.args[1:]]
                if len(params) != len(st.value.args):
                    raise Unsupported("helper call shape: " + text[:120])
                k2 = {}
                for p_, a_ in zip(params, st.value.args):
                    kk = kinds.get(src(a_))
                    if kk is None:
                        raise Unsupported("helper argument with an unknown index: " + text[:120])
                    k2[p_] = kk
                out += self.part_body(fn.body, {}, k2)
                continue
            if isinstance(st, ast.For) and "__listing__" in env and src(st.iter) == env["__listing__"][0] and not st.orelse:
                var = src(st.target)
                b = strip(st.body)
                if len(b) == 1 and isinstance(b[0], ast.Expr) and isinstance(b[0].value, ast.Call) and src(b[0].value.func) == "os.rename":
                    a0, a1 = b[0].value.args
                    if src(a0) == var and isinstance(a1, ast.BinOp) and isinstance(a1.op, ast.Div) and src(a1.right) == f"{var}.name":
                        out.append(f"PMoveEntries {env['__listing__'][1]} {self.sym(a1.left, env, kinds)}")
                        continue
                raise Unsupported("entry move loop: " + text[:160])
            raise Unsupported("finalise_array partition loop: " + text[:160])
        return out

    def command(self, method, kinds):
        fn = self.methods.get(method)
        if fn is None:
            raise Unsupported("no method " + method)
        return self.walk(fn.body, {}, dict(kinds))


def wrapper_ok(tree, name, cls, method):
    """module-level entry points used by the CLI: construct the writer, call the method, nothing else
    that touches the file system"""
    fn = find(tree, name)
    calls = [src(c.func) for c in ast.walk(fn) if isinstance(c, ast.Call)]
    if cls not in calls:
        raise Unsupported(f"{name}: does not construct {cls}")
    if not any(re.fullmatch(r"\w+\." + method, c) for c in calls):
        raise Unsupported(f"{name}: does not call .{method}")
    text = src(fn)
    text = text.replace("with open(schema_path) as f:", "")
    if "open" in calls and src(fn).count("open(") != src(fn).count("with open(schema_path) as f:"):
        raise Unsupported(f"{name}: opens something other than the schema file for reading")
    if EFFECT_TOKENS.search(text) or any(c not in (cls, "icf.IntermediateColumnarFormat", "VcfZarrSchema.generate", "VcfZarrSchema.fromjson",
                                                   "pathlib.Path", "logger.info", "ValueError", "f.read", "max", "open")
                                          and not re.fullmatch(r"\w+\." + method, c) for c in calls):
        raise Unsupported(f"{name}: more than a wrapper")


def coq_list(name, effs):
    body = ";\n  ".join(effs)
    return f"Definition {name} : list eff :=\n  [ {body} ].\n"


def translate_icf():
    icf_tree = ast.parse(open(os.path.join(REPO, "bio2zarr/vcf2zarr/icf.py")).read())
    out = []
    p = Proto(icf_tree, "IntermediateColumnarFormatWriter", ICF_SYMS, "IcfPartitionWriter", r"(?!x)x")
    out.append(coq_list("icf_init", p.command("init", {})))
    out.append(coq_list("icf_partition", p.command("explode_partition", {"partition": "J"})))
    out.append(coq_list("icf_finalise", p.command("finalise", {})))
    wrapper_ok(icf_tree, "explode_init", "IntermediateColumnarFormatWriter", "init")
    wrapper_ok(icf_tree, "explode_partition", "IntermediateColumnarFormatWriter", "explode_partition")
    wrapper_ok(icf_tree, "explode_finalise", "IntermediateColumnarFormatWriter", "finalise")
    return out


def translate_vcz():
    vcz_tree = ast.parse(open(os.path.join(REPO, "bio2zarr/vcf2zarr/vcz.py")).read())
    out = []
    z = Proto(vcz_tree, "VcfZarrWriter", VCZ_SYMS, "(?!x)x", r"encode_\w+_partition")
    out.append(coq_list("vcz_init", z.command("init", {})))
    out.append(coq_list("vcz_partition", z.command("encode_partition", {"partition_index": "J"})))
    out.append(coq_list("vcz_finalise", z.command("finalise", {})))
    wrapper_ok(vcz_tree, "encode_init", "VcfZarrWriter", "init")
    wrapper_ok(vcz_tree, "encode_partition", "VcfZarrWriter", "encode_partition")
    wrapper_ok(vcz_tree, "encode_finalise", "VcfZarrWriter", "finalise")
    return out


def main():
    out_dir = sys.argv[1]
    status = {}
    for unit, fn in (("GenIcfProtocol", translate_icf), ("GenVczProtocol", translate_vcz)):
        path = os.path.join(out_dir, unit + ".v")
        try:
            defs = fn()
            text = (f"(* GENERATED by translator/proto2coq.py from {REPO}: the effect sequences of the protocol commands *)\n"
                    "From Coq Require Import List.\nFrom B2Z Require Import Base.Eff.\nImport ListNotations.\n\n" + "\n".join(defs))
            status[unit] = "ok"
        except Unsupported as u:
            text = f"(* TRANSLATION FAILED (fail-closed): {u} *)\n"
            status[unit] = "unsupported: " + str(u)
        except (SyntaxError, OSError) as u:
            text = f"(* TRANSLATION FAILED (fail-closed): {type(u).__name__} *)\n"
            status[unit] = "unsupported: " + type(u).__name__ + ": " + str(u)
        old = open(path).read() if os.path.exists(path) else None
        if old != text:
            open(path, "w").write(text)
    print(json.dumps(status))


if __name__ == "__main__":
    main()
