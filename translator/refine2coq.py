#!/venv/bin/python
"""refine2coq.py -- fail-closed translator for the last three pieces of the region partitioning of vcf_utils.py (C04):
Region.__str__ (the htslib region string), IndexedVcf.variants (the htslib query followed by the `POS >= start` filter)
and IndexedVcf._filter_empty_and_refine (drop empty regions, move the start to the first record).  Output:
coq/Gen/GenRefine.v, regenerated on every run; Bridge/BridgeRefine.v proves the generated definitions equal to
Model.Regions.query / refine (with htslib's region query as the parameter the model also has) and that the three region
forms the translated builder produces are printed as htslib's `contig`, `contig:start-`, `contig:start-end`.

Region.__str__:   s = f"{self.contig}" ; if self.start is not None: s += f":{self.start}-" ; if self.end is not None: s += str(self.end) ; return s
variants:         start = 1 if region.start is None else region.start
                  for var in self.vcf(str(region)): if var.POS >= start: yield var
refine:           for region in regions: var = next(self.variants(region), None)
                                         if var is not None: region.start = var.POS ; yield region      (guard-clause form accepted)
Anything else is Unsupported: the unit is emitted as a comment and the bridge stops compiling.
"""
import ast
import json
import os
import sys

REPO = os.environ.get("VERIF_REPO", "/repo")


class Unsupported(Exception):
    pass


def src(n):
    return ast.unparse(n)


def strip(body):
    out = []
    for s in body:
        if isinstance(s, ast.Expr) and isinstance(s.value, ast.Constant) and isinstance(s.value.value, str):
            continue
        if isinstance(s, ast.Expr) and isinstance(s.value, ast.Call) and src(s.value.func).split(".")[0] in ("logger", "logging", "print"):
            continue
        out.append(s)
    return out


def cls_fn(tree, cls, fn):
    c = next((n for n in tree.body if isinstance(n, ast.ClassDef) and n.name == cls), None)
    f = next((n for n in c.body if isinstance(n, ast.FunctionDef) and n.name == fn), None) if c else None
    if f is None:
        raise Unsupported(f"not found: {cls}.{fn}")
    return f


def region_str(tree):
    fn = cls_fn(tree, "Region", "__str__")
    t = [src(x) for x in strip(fn.body)]
    want = ["s = f'{self.contig}'", "if self.start is not None:\n    s += f':{self.start}-'", "if self.end is not None:\n    s += str(self.end)", "return s"]
    if t != want:
        bad = next((a for a, b in zip(t + [""], want + [""]) if a != b), "")
        raise Unsupported("Region.__str__: " + bad[:120])
    return """(* Region.__str__ as a list of tokens *)
Definition gen_region_str (contig : Z) (start stop : option Z) : list rtoken :=
  let s := [TContig contig] in
  let s := match start with Some v => s ++ [TColon; TNum v; TDash] | None => s end in
  let s := match stop with Some v => s ++ [TNum v] | None => s end in
  s.
"""


def variants(tree):
    fn = cls_fn(tree, "IndexedVcf", "variants")
    b = strip(fn.body)
    t = [src(x) for x in b]
    ok = False
    if [a.arg for a in fn.args.args] == ["self", "region"] and len(b) == 2 and isinstance(b[0], ast.Assign) and isinstance(b[0].targets[0], ast.Name) \
            and src(b[0].value) == "1 if region.start is None else region.start" and isinstance(b[1], ast.For) and isinstance(b[1].target, ast.Name) \
            and src(b[1].iter) == "self.vcf(str(region))" and not b[1].orelse:
        x, v = b[0].targets[0].id, b[1].target.id          # local names are free
        lb = [src(y) for y in strip(b[1].body)]
        ok = lb == [f"if {v}.POS >= {x}:\n    yield {v}"]
    if not ok:
        raise Unsupported("IndexedVcf.variants: " + " | ".join(t)[:200])
    return """(* IndexedVcf.variants: htslib's query for str(region), then the POS >= start filter *)
Definition gen_variants (r : region) : list rec :=
  let start := match rs r with None => 1 | Some v => v end in
  filter (fun var => start <=? snd var) (hts_query r).
"""


def refine(tree):
    fn = cls_fn(tree, "IndexedVcf", "_filter_empty_and_refine")
    body = strip(fn.body)
    if [a.arg for a in fn.args.args] != ["self", "regions"] or len(body) != 1 or not isinstance(body[0], ast.For) or src(body[0].iter) != "regions":
        raise Unsupported("_filter_empty_and_refine: shape")
    lp = body[0]
    v = lp.target.id
    lb = strip(lp.body)
    b = [src(x) for x in lb]
    w = lb[0].targets[0].id if lb and isinstance(lb[0], ast.Assign) and isinstance(lb[0].targets[0], ast.Name) else "var"   # local names are free
    forms = ([f"{w} = next(self.variants({v}), None)", f"if {w} is not None:\n    {v}.start = {w}.POS\n    yield {v}"],
             [f"{w} = next(self.variants({v}), None)", f"if {w} is None:\n    continue", f"{v}.start = {w}.POS", f"yield {v}"])
    if b not in forms:
        raise Unsupported("_filter_empty_and_refine: " + " | ".join(b)[:200])
    return """(* _filter_empty_and_refine *)
Definition gen_refine (regions : list region) : list region :=
  flat_map (fun r => match gen_variants r with
                     | [] => []
                     | var :: _ => [R (rc r) (Some (snd var)) (re r)]
                     end) regions.
"""


def main():
    out_dir = sys.argv[1]
    path = os.path.join(out_dir, "GenRefine.v")
    try:
        tree = ast.parse(open(os.path.join(REPO, "bio2zarr/vcf_utils.py")).read())
        text = (f"(* GENERATED by translator/refine2coq.py from {REPO}/bio2zarr/vcf_utils.py: Region.__str__, IndexedVcf.variants, IndexedVcf._filter_empty_and_refine *)\n"
                "From Coq Require Import ZArith List Bool.\nFrom B2Z Require Import Model.Regions Base.RegionStr.\nImport ListNotations.\nOpen Scope Z_scope.\n\n"
                + region_str(tree) + "\nSection Refine.\n(* what htslib returns for the region string: the model's contract (records of the contig overlapping [start, end]) *)\n"
                "Variable hts_query : region -> list rec.\n\n" + variants(tree) + "\n" + refine(tree) + "End Refine.\n")
        status = "ok"
    except Unsupported as u:
        text = f"(* TRANSLATION FAILED (fail-closed): {u} *)\n"
        status = "unsupported: " + str(u)
    except (SyntaxError, OSError) as u:
        text = f"(* TRANSLATION FAILED (fail-closed): {type(u).__name__} *)\n"
        status = "unsupported: " + type(u).__name__ + ": " + str(u)
    old = open(path).read() if os.path.exists(path) else None
    if old != text:
        open(path, "w").write(text)
    print(json.dumps({"GenRefine": status}))


if __name__ == "__main__":
    main()
