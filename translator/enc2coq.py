#!/venv/bin/python
"""enc2coq.py -- fail-closed translator for the driving skeleton of the six partition encoders of vcz.py
(encode_array_partition, encode_genotypes_partition, encode_alleles_partition, encode_id_partition,
encode_filters_partition, encode_contig_partition) to Gallina (coq/Gen/GenEncoders.v).  Regenerated on
every run; Bridge/BridgeEncoders.v proves that every one of them drives its BufferedArray objects exactly
as Bridge/BridgeBuffer.v (gen_encode) and Pipeline/Pipe.v assume: created at the partition's start, one
next_buffer_row per value of the partition's range, writes only into the row just handed out, one flush
after the loop, every array initialised is finalised.

Read off each method, in program order:
  X = self.init_partition_array(partition_index, <name>)          arrays initialised (name: literal, local bound to
                                                                   a literal, or array_spec.name)
  B = core.BufferedArray(X, <offset>)                              buffer over X; offset `partition.start` or other
  for .. in F.iter_values(a, b)  |  zip(F.iter_values(a, b), ..)   sources; (a, b) = (partition.start, partition.stop) or other
  in the loop body (also under if / else / inner for / try):
      j = B.next_buffer_row()                                      ENext B       (not allowed under a conditional / loop)
      B.buff[j ..] = ..   /   f(B.buff, j, ..)                     EWrite B (buffer whose next_buffer_row produced j)
      .. B'.buff[j ..] ..  on a right-hand side                    ERead B' (origin of j)
  B.flush()                                                        finals
  self.finalise_partition_array(partition_index, <name>)           arrays finalised
Everything else must not mention a buffer or `partition` (assignments of lookups / fields / names, asserts,
raise in handlers).  Anything else is Unsupported: the unit is emitted as a comment and the bridge stops compiling.
"""
import ast
import json
import os
import sys

REPO = os.environ.get("VERIF_REPO", "/repo")
METHODS = ["encode_array_partition", "encode_genotypes_partition", "encode_alleles_partition", "encode_id_partition",
           "encode_filters_partition", "encode_contig_partition"]


class Unsupported(Exception):
    pass


def src(n):
    return ast.unparse(n)


def strip(body):
    out = []
    for s in body:
        if isinstance(s, ast.Expr) and isinstance(s.value, ast.Constant) and isinstance(s.value.value, str):
            continue
        if isinstance(s, ast.Expr) and isinstance(s.value, ast.Call) and src(s.value.func).split(".")[0] in ("logger", "logging", "print"):
            continue
        out.append(s)
    return out


class M:
    def __init__(self, fn):
        self.fn = fn
        self.strs = {}        # local -> string literal
        self.inits = {}       # local -> array name
        self.bufs = {}        # local -> (index, array name, offset kind)
        self.order = []
        self.srcs = []
        self.body = []
        self.finals = []
        self.finalised = []

    def name_of(self, e):
        if isinstance(e, ast.Constant) and isinstance(e.value, str):
            return e.value
        if isinstance(e, ast.Name) and e.id in self.strs:
            return self.strs[e.id]
        if src(e) == "array_spec.name":
            return "<array_spec.name>"
        raise Unsupported("array name: " + src(e))

    def mentions_buffers(self, node):
        names = {n.id for n in ast.walk(node) if isinstance(n, ast.Name)}
        return bool(names & (set(self.bufs) | set(self.inits)))

    def buff_ref(self, e):
        """B.buff[...] -> (B, first index expression) else None"""
        if isinstance(e, ast.Subscript) and isinstance(e.value, ast.Attribute) and e.value.attr == "buff" and isinstance(e.value.value, ast.Name) \
                and e.value.value.id in self.bufs:
            idx = e.slice.elts[0] if isinstance(e.slice, ast.Tuple) else e.slice
            return e.value.value.id, idx
        return None

    def origin(self, idx, rows):
        if isinstance(idx, ast.Name) and idx.id in rows:
            return rows[idx.id]
        raise Unsupported("row index of unknown origin: " + src(idx))

    def reads(self, node, rows):
        for n in ast.walk(node):
            r = self.buff_ref(n)
            if r:
                self.body.append(f"ERead {self.bufs[r[0]][0]} {self.origin(r[1], rows)}")

    def walk_body(self, stmts, rows, nested):
        for st in strip(stmts):
            if isinstance(st, ast.Assign) and len(st.targets) == 1:
                t, v = st.targets[0], st.value
                if isinstance(v, ast.Call) and isinstance(v.func, ast.Attribute) and v.func.attr == "next_buffer_row" \
                        and isinstance(v.func.value, ast.Name) and v.func.value.id in self.bufs:
                    if nested or not isinstance(t, ast.Name) or v.args or v.keywords:
                        raise Unsupported("next_buffer_row under a conditional / loop or with a strange target: " + src(st))
                    b = self.bufs[v.func.value.id][0]
                    rows[t.id] = b
                    self.body.append(f"ENext {b}")
                    continue
                r = self.buff_ref(t)
                if r:
                    self.reads(v, rows)
                    self.body.append(f"EWrite {self.bufs[r[0]][0]} {self.origin(r[1], rows)}")
                    continue
                if isinstance(t, ast.Name) and t.id in rows:
                    raise Unsupported("row index rebound: " + src(st))
                if self.mentions_buffers(t):
                    raise Unsupported("assignment to a buffer: " + src(st)[:80])
                self.reads(v, rows)
                continue
            if isinstance(st, ast.Expr) and isinstance(st.value, ast.Call):
                c = st.value
                if len(c.args) >= 2 and isinstance(c.args[0], ast.Attribute) and c.args[0].attr == "buff" and isinstance(c.args[0].value, ast.Name) \
                        and c.args[0].value.id in self.bufs:
                    for a in c.args[2:]:
                        self.reads(a, rows)
                    self.body.append(f"EWrite {self.bufs[c.args[0].value.id][0]} {self.origin(c.args[1], rows)}")
                    continue
                if self.mentions_buffers(c):
                    raise Unsupported("call on a buffer inside the loop: " + src(st)[:80])
                continue
            if isinstance(st, ast.Assert):
                continue
            if isinstance(st, ast.If):
                self.reads(st.test, rows)
                self.walk_body(st.body, rows, True)
                self.walk_body(st.orelse, rows, True)
                continue
            if isinstance(st, ast.For):
                self.walk_body(st.body, rows, True)
                continue
            if isinstance(st, ast.Try):
                self.walk_body(st.body, rows, True)
                for h in st.handlers:
                    for x in strip(h.body):
                        if not isinstance(x, ast.Raise):
                            raise Unsupported("handler: " + src(x)[:80])
                continue
            raise Unsupported("loop statement: " + src(st)[:80])

    def source(self, it):
        if isinstance(it, ast.Call) and src(it.func) == "zip":
            for a in it.args:
                self.source(a)
            return
        if isinstance(it, ast.Call) and isinstance(it.func, ast.Attribute) and it.func.attr == "iter_values" and len(it.args) == 2 and not it.keywords:
            ok = [src(a) for a in it.args] == ["partition.start", "partition.stop"]
            self.srcs.append("SrcPartition" if ok else "SrcOther")
            return
        raise Unsupported("loop source: " + src(it)[:80])

    def run(self):
        seen_loop = False
        partition_bound = False
        for st in strip(self.fn.body):
            t = src(st)
            if isinstance(st, ast.For):
                if seen_loop or st.orelse:
                    raise Unsupported("second loop")
                seen_loop = True
                self.source(st.iter)
                self.walk_body(st.body, {}, False)
                continue
            if isinstance(st, ast.Assign) and len(st.targets) == 1 and isinstance(st.targets[0], ast.Name):
                x, v = st.targets[0].id, st.value
                if isinstance(v, ast.Constant) and isinstance(v.value, str):
                    self.strs[x] = v.value
                    continue
                if isinstance(v, ast.Call) and src(v.func) == "self.init_partition_array" and len(v.args) == 2 and src(v.args[0]) == "partition_index" and not seen_loop:
                    self.inits[x] = self.name_of(v.args[1])
                    continue
                if t == f"{x} = self.metadata.partitions[partition_index]" and x == "partition":
                    partition_bound = True
                    continue
                if isinstance(v, ast.Call) and src(v.func) in ("core.BufferedArray", "BufferedArray") and not seen_loop:
                    if len(v.args) != 2 or v.keywords or not (isinstance(v.args[0], ast.Name) and v.args[0].id in self.inits):
                        raise Unsupported("BufferedArray: " + t[:80])
                    off = "OffPartStart" if (src(v.args[1]) == "partition.start" and partition_bound) else "OffOther"
                    self.bufs[x] = (len(self.order), self.inits[v.args[0].id], off)
                    self.order.append(x)
                    continue
                if isinstance(v, ast.Call) and isinstance(v.func, ast.Attribute) and v.func.attr == "sanitiser_factory" and len(v.args) == 1 \
                        and src(v.args[0]).endswith(".buff.shape") and src(v.args[0])[: -len(".buff.shape")] in self.bufs and not seen_loop:
                    continue   # the sanitiser chosen for the buffer's rank (C01: translated_sanitiser_dispatch)
                if self.mentions_buffers(v) or x == "partition" or x in self.bufs or x in self.inits:
                    raise Unsupported("assignment: " + t[:80])
                continue       # lookups, fields, sanitiser: no buffer involved
            if isinstance(st, ast.Expr) and isinstance(st.value, ast.Call):
                c = st.value
                if isinstance(c.func, ast.Attribute) and c.func.attr == "flush" and isinstance(c.func.value, ast.Name) and c.func.value.id in self.bufs \
                        and not c.args and not c.keywords:
                    if not seen_loop:
                        raise Unsupported("flush before the loop")
                    self.finals.append(self.bufs[c.func.value.id][0])
                    continue
                if src(c.func) == "self.finalise_partition_array" and len(c.args) == 2 and src(c.args[0]) == "partition_index":
                    if not seen_loop:
                        raise Unsupported("finalise before the loop")
                    self.finalised.append(self.name_of(c.args[1]))
                    continue
            raise Unsupported("statement: " + t[:80])
        if not seen_loop:
            raise Unsupported("no loop")


def translate():
    tree = ast.parse(open(os.path.join(REPO, "bio2zarr/vcf2zarr/vcz.py")).read())
    cls = next((n for n in tree.body if isinstance(n, ast.ClassDef) and n.name == "VcfZarrWriter"), None)
    if cls is None:
        raise Unsupported("VcfZarrWriter not found")
    fns = {n.name: n for n in cls.body if isinstance(n, ast.FunctionDef)}
    # every encode_*_partition method the class has must be one of the known six (a new encoder has to be looked at)
    have = sorted(n for n in fns if n.startswith("encode_") and n.endswith("_partition") and n != "encode_partition")
    extra = [n for n in have if n not in METHODS and n not in ("encode_local_alleles_partition", "encode_local_allele_fields_partition")]
    if extra or [n for n in METHODS if n not in fns]:
        raise Unsupported("encoder methods: " + str(have))
    names = {}
    defs = []
    for m in METHODS:
        fn = fns[m]
        if [a.arg for a in fn.args.args][-1] != "partition_index":
            raise Unsupported(m + ": signature")
        x = M(fn)
        try:
            x.run()
        except Unsupported as u:
            raise Unsupported(f"{m}: {u}") from None

        def aid(nm):
            return names.setdefault(nm, len(names))

        arrays = [aid(x.bufs[b][1]) for b in x.order]
        inits = [aid(v) for v in x.inits.values()]
        fin = [aid(v) for v in x.finalised]
        offs = [x.bufs[b][2] for b in x.order]
        defs.append(f"(* {m}: buffers {', '.join(f'{i}={b}({x.bufs[b][1]})' for i, b in enumerate(x.order))} *)\n"
                    f"Definition skel_{m} : skel :=\n  {{| nbufs := {len(x.order)}; offs := [{'; '.join(offs)}]; arrays := [{'; '.join(map(str, arrays))}];\n"
                    f"     inits := [{'; '.join(map(str, inits))}]; srcs := [{'; '.join(x.srcs)}];\n     body := [{'; '.join(x.body)}];\n"
                    f"     finals := [{'; '.join(map(str, x.finals))}]; finalised := [{'; '.join(map(str, fin))}] |}}.\n")
    return (f"(* GENERATED by translator/enc2coq.py from {REPO}/bio2zarr/vcf2zarr/vcz.py: the driving skeletons of the partition encoders *)\n"
            "From Coq Require Import ZArith List.\nFrom B2Z Require Import Base.Prims Base.EncSkel.\nImport ListNotations.\nLocal Open Scope nat_scope.\n\n"
            f"(* array ids: {', '.join(f'{v}={k}' for k, v in names.items())} *)\n\n" + "\n".join(defs)
            + "\nDefinition gen_encoders : list skel := [" + "; ".join("skel_" + m for m in METHODS) + "].\n" + filters_row(fns) + genotype_trio(fns))


def filters_row(fns):
    """encode_filters_partition: how one record's FILTER value becomes a row of flags"""
    fn = fns["encode_filters_partition"]
    body = strip(fn.body)
    t0 = src(body[0]) if body else ""
    if t0 != "lookup = {filt.id: index for index, filt in enumerate(self.schema.filters)}":
        raise Unsupported("encode_filters_partition: lookup table: " + t0[:100])
    loop = next((x for x in body if isinstance(x, ast.For)), None)
    lb = strip(loop.body) if loop else []
    v = loop.target.id if loop and isinstance(loop.target, ast.Name) else "?"
    if len(lb) != 3 or not (isinstance(lb[0], ast.Assign) and src(lb[0].value).endswith(".next_buffer_row()")):
        raise Unsupported("encode_filters_partition: record loop")
    j = src(lb[0].targets[0])
    b = src(lb[0].value)[: -len(".next_buffer_row()")]
    if src(lb[1]) != f"{b}.buff[{j}] = False":
        raise Unsupported("encode_filters_partition: the row is not cleared first: " + src(lb[1])[:80])
    inner = lb[2]
    if not (isinstance(inner, ast.For) and src(inner.iter) == v and isinstance(inner.target, ast.Name) and not inner.orelse):
        raise Unsupported("encode_filters_partition: filter loop")
    f = inner.target.id
    ib = strip(inner.body)
    ok = len(ib) == 1 and isinstance(ib[0], ast.Try) and not ib[0].orelse and not ib[0].finalbody and len(ib[0].handlers) == 1 \
        and [src(x) for x in strip(ib[0].body)] == [f"{b}.buff[{j}, lookup[{f}]] = True"] \
        and src(ib[0].handlers[0].type) == "KeyError" and len(strip(ib[0].handlers[0].body)) == 1 \
        and isinstance(strip(ib[0].handlers[0].body)[0], ast.Raise) and src(strip(ib[0].handlers[0].body)[0].exc).startswith("ValueError(")
    if not ok:
        raise Unsupported("encode_filters_partition: every filter of the record must be looked up, an unknown one raising ValueError: " + src(inner)[:160])
    return """
(* encode_filters_partition, one record: the row is cleared, then every filter of the record is looked up in the header's
   filter list (value: Some index | None = not declared) and its flag set; an undeclared filter raises ValueError *)
Fixpoint gen_filter_row_loop (row : list bool) (value : list (option nat)) : res (list bool) :=
  match value with
  | [] => Ok row
  | None :: _ => Err E_ValueError
  | Some i :: tl => gen_filter_row_loop (set_nth i true row) tl
  end.
Definition gen_filter_row (nf : nat) (value : list (option nat)) : res (list bool) := gen_filter_row_loop (repeat false nf) value.
"""


def genotype_trio(fns):
    """encode_genotypes_partition: which part of the GT value goes where"""
    fn = fns["encode_genotypes_partition"]
    loop = next((x for x in strip(fn.body) if isinstance(x, ast.For)), None)
    if loop is None or not isinstance(loop.target, ast.Name):
        raise Unsupported("encode_genotypes_partition: loop")
    v = loop.target.id
    if src(loop.iter) != "source_field.iter_values(partition.start, partition.stop)" or "source_field = self.icf.fields['FORMAT/GT']" not in [src(x) for x in strip(fn.body)]:
        raise Unsupported("encode_genotypes_partition: the source is not FORMAT/GT over the partition's range")
    names = {}          # buffer local -> array name
    arr = {}
    for st in strip(fn.body):
        if isinstance(st, ast.Assign) and isinstance(st.value, ast.Call) and src(st.value.func) == "self.init_partition_array" and isinstance(st.value.args[1], ast.Constant):
            arr[src(st.targets[0])] = st.value.args[1].value
        if isinstance(st, ast.Assign) and isinstance(st.value, ast.Call) and src(st.value.func) in ("core.BufferedArray", "BufferedArray") and src(st.value.args[0]) in arr:
            names[src(st.targets[0])] = arr[src(st.value.args[0])]
    got = {}
    for st in strip(loop.body):
        t = src(st)
        if isinstance(st, ast.Assign) and src(st.value).endswith(".next_buffer_row()"):
            continue
        if isinstance(st, ast.Expr) and isinstance(st.value, ast.Call) and src(st.value.func).startswith("icf.sanitise_value_") and len(st.value.args) == 3:
            c = st.value
            b = src(c.args[0])[: -len(".buff")]
            a = src(c.args[2])
            part = {f"{v}[:, :-1] if {v} is not None else None": "AllButLastColumn", f"{v}[:, -1] if {v} is not None else None": "LastColumn"}.get(a)
            if b not in names or part is None:
                raise Unsupported("encode_genotypes_partition: sanitiser call: " + t[:120])
            got[names[b]] = (src(c.func)[len("icf.sanitise_value_"):], part)
            continue
        if isinstance(st, ast.Assign) and isinstance(st.targets[0], ast.Subscript) and src(st.targets[0].value).endswith(".buff"):
            b = src(st.targets[0].value)[: -len(".buff")]
            val = st.value
            if b in names and isinstance(val, ast.Compare) and len(val.ops) == 1 and isinstance(val.ops[0], ast.Lt) and src(val.comparators[0]) == "0" \
                    and isinstance(val.left, ast.Subscript) and src(val.left.value).endswith(".buff") and names.get(src(val.left.value)[: -len(".buff")]) == "call_genotype":
                got[names[b]] = ("mask", "StoredAlleleBelowZero")
                continue
            raise Unsupported("encode_genotypes_partition: store: " + t[:120])
        raise Unsupported("encode_genotypes_partition: statement: " + t[:100])
    want = {"call_genotype": ("int_2d", "AllButLastColumn"), "call_genotype_phased": ("int_1d", "LastColumn"), "call_genotype_mask": ("mask", "StoredAlleleBelowZero")}
    if got != want:
        raise Unsupported("encode_genotypes_partition: the three arrays are fed " + str(got))
    return """
(* encode_genotypes_partition, one record; value = FORMAT/GT as cyvcf2 delivers it: per sample the allele numbers followed by the
   phase flag.  call_genotype <- sanitise_value_int_2d of all columns but the last; call_genotype_phased <- sanitise_value_int_1d of
   the last column; call_genotype_mask <- (stored allele < 0) *)
Definition gen_gt_alleles (value : list (list Z)) : list (list Z) := map (@removelast Z) value.
Definition gen_gt_phase (value : list (list Z)) : list Z := map (fun r => last r 0%Z) value.
Definition gen_gt_mask (stored : list (list Z)) : list (list bool) := map (map (fun a => (a <? 0)%Z)) stored.
"""


def main():
    out_dir = sys.argv[1]
    path = os.path.join(out_dir, "GenEncoders.v")
    try:
        text = translate()
        status = "ok"
    except Unsupported as u:
        text = f"(* TRANSLATION FAILED (fail-closed): {u} *)\n"
        status = "unsupported: " + str(u)
    except (SyntaxError, OSError) as u:
        text = f"(* TRANSLATION FAILED (fail-closed): {type(u).__name__} *)\n"
        status = "unsupported: " + type(u).__name__ + ": " + str(u)
    old = open(path).read() if os.path.exists(path) else None
    if old != text:
        open(path, "w").write(text)
    print(json.dumps({"GenEncoders": status}))


if __name__ == "__main__":
    main()
