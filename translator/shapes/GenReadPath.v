(* Control skeleton of the intermediate store's read path
   (IntermediateColumnarFormat.__init__, chunk_record_index, read_chunk, chunks, values):
   loading requires metadata.json to open and decode; a field's partition is read by opening
   and unpickling chunk_index (asserts: more than one entry, first entry 0), then for EVERY
   chunk announced by the index opening the file named by the cumulative count, decoding it
   completely (size check against the Blosc header, Blosc decode + unpickle) and comparing its
   length with the index.
   The decoders are parameters. *)
From Coq Require Import Arith List Bool.
Import ListNotations.

Section ReadPath.
Variables (bytes value : Type).
Variable decode : bytes -> option (list value).      (* compressor.decode + pickle.loads *)
Variable decode_index : bytes -> option (list nat).   (* pickle.load of chunk_index *)

(* one partition of one field: chunk_index file + chunk files; None = file missing *)
Record pstore := { idx : option bytes; chunks : list (option bytes) }.

Fixpoint read_chunks (counts : list nat) (cs : list (option bytes)) : option (list value) :=
  match counts, cs with
  | [], _ => Some []
  | n :: counts', Some b :: cs' =>
      match decode b with
      | Some vs => if Nat.eqb (length vs) n            (* "Corruption detected in chunk" *)
                   then match read_chunks counts' cs' with Some r => Some (vs ++ r) | None => None end
                   else None
      | None => None end
  | _, _ => None
  end.
Fixpoint diffs (cum : list nat) : list nat := match cum with a :: ((b :: _) as tl) => (b - a) :: diffs tl | _ => [] end.
Definition read_partition (p : pstore) : option (list value) :=
  match idx p with
  | Some ib => match decode_index ib with
               | Some cum => if (1 <? length cum) && Nat.eqb (hd 1 cum) 0      (* assert len(a) > 1; assert a[0] == 0 *)
                             then read_chunks (diffs cum) (chunks p) else None
               | None => None end
  | None => None
  end.
End ReadPath.
