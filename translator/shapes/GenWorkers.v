(* Control skeleton of core.wait_on_futures / cancel_futures / ParallelWorkManager.__exit__ and
   of the pipeline drivers (explode, encode, plink.convert): one task is submitted per
   partition inside the manager; __exit__ waits on ALL submitted futures in completion order;
   the first one that did not finish normally makes the wait cancel the rest and raise
   (RuntimeError for a broken pool or a task that raised SystemExit / KeyboardInterrupt, the task's own
   exception otherwise); the statements after
   the with-block (finalise / consolidate) run only if the block returned normally. *)
From Coq Require Import List Bool.
Import ListNotations.

(* Raised e: the task raised an Exception (id e); Exited: it raised SystemExit / KeyboardInterrupt
   (a BaseException that is not an Exception); Broken: its process died (BrokenProcessPool) *)
Inductive outcome := Done | Raised (e : nat) | Broken | Exited.
Inductive result := Ok | ErrReraise (e : nat) | ErrRuntime.

(* for future in cf.as_completed(futures): exception = future.exception();
   if exception is not None: cancel_futures(futures); if isinstance(.., BrokenProcessPool): raise
   RuntimeError(...) from exception elif not isinstance(exception, Exception): raise RuntimeError(...)
   from exception else: raise exception *)
Fixpoint wait_on_futures (completed : list outcome) : result :=
  match completed with
  | [] => Ok
  | Done :: tl => wait_on_futures tl
  | Raised e :: _ => ErrReraise e
  | Broken :: _ => ErrRuntime
  | Exited :: _ => ErrRuntime
  end.

(* __exit__: if exc_type is None: wait_on_futures(self.futures) else: cancel_futures(self.futures) *)
Definition pwm_exit (body_exc : option nat) (completed : list outcome) : result :=
  match body_exc with None => wait_on_futures completed | Some e => ErrReraise e end.

(* driver: with ParallelWorkManager(...) as pwm: for j in partitions: pwm.submit(task, j)
           <after>            -- runs only when the with-statement did not raise *)
Definition driver (completed : list outcome) : result * bool :=
  match pwm_exit None completed with Ok => (Ok, true) | r => (r, false) end.
