#!/venv/bin/python
"""initarr2coq.py -- fail-closed translator for VcfZarrWriter.init_array (vcz.py; C10 "a user schema is honoured exactly"):
where the properties of an array specification reach zarr.  Output: coq/Gen/GenInitArray.v (a flow table), regenerated on
every run; Props/C10.v proves by evaluation that every requested property of the specification -- name, chunks, dtype,
compressor, filters, dimension names, description -- is handed to zarr VERBATIM (compressor / filters through
numcodecs.get_codec only), that the shape is the specification's with nothing but the variants axis replaced by the
partition plan's row count, and that the object codec depends on the dtype alone.

Recognised:  root.empty(name=.., shape=.., chunks=.., dtype=.., compressor=.., filters=.., object_codec=.., dimension_separator=..,
**ZARR_FORMAT_KWARGS) and a.attrs.update({...}); the local `shape = list(array_spec.shape); shape[0] = variants_dim_size`;
`object_codec = None; if array_spec.dtype == "O": object_codec = numcodecs.VLenUTF8()`.
Anything else is Unsupported: the unit is emitted as a comment and Props/C10.v stops compiling.
"""
import ast
import json
import os
import sys

REPO = os.environ.get("VERIF_REPO", "/repo")


class Unsupported(Exception):
    pass


def src(n):
    return ast.unparse(n)


def strip(body):
    out = []
    for s in body:
        if isinstance(s, ast.Expr) and isinstance(s.value, ast.Constant) and isinstance(s.value.value, str):
            continue
        if isinstance(s, ast.Expr) and isinstance(s.value, ast.Call) and src(s.value.func).split(".")[0] in ("logger", "logging", "print"):
            continue
        out.append(s)
    return out


def flow(e, locs):
    """how a keyword's value derives from the specification"""
    t = src(e)
    if isinstance(e, ast.Name) and e.id in locs:
        return locs[e.id]
    if t.startswith("array_spec.") and t[len("array_spec."):].isidentifier():
        return f"Verbatim F_{t[len('array_spec.'):]}"
    if t.startswith("numcodecs.get_codec(array_spec.") and t.endswith(")") and t[len("numcodecs.get_codec(array_spec."):-1].isidentifier():
        return f"ViaGetCodec F_{t[len('numcodecs.get_codec(array_spec.'):-1]}"
    if isinstance(e, ast.ListComp) and len(e.generators) == 1 and src(e.generators[0].iter).startswith("array_spec.") and not e.generators[0].ifs \
            and src(e.elt) == f"numcodecs.get_codec({src(e.generators[0].target)})":
        return f"ViaGetCodec F_{src(e.generators[0].iter)[len('array_spec.'):]}"
    if t == "self.metadata.dimension_separator":
        return "FromPlan"
    raise Unsupported("value: " + t[:80])


def translate():
    tree = ast.parse(open(os.path.join(REPO, "bio2zarr/vcf2zarr/vcz.py")).read())
    cls = next((n for n in tree.body if isinstance(n, ast.ClassDef) and n.name == "VcfZarrWriter"), None)
    fn = next((n for n in cls.body if isinstance(n, ast.FunctionDef) and n.name == "init_array"), None) if cls else None
    if fn is None or [a.arg for a in fn.args.args] != ["self", "root", "array_spec", "variants_dim_size"]:
        raise Unsupported("init_array signature")
    locs = {}
    rows = []
    created = False
    avar = None
    body = strip(fn.body)
    i = 0
    while i < len(body):
        st = body[i]
        t = src(st)
        i += 1
        if t == "object_codec = None" and i < len(body) and src(body[i]) == "if array_spec.dtype == 'O':\n    object_codec = numcodecs.VLenUTF8()":
            locs["object_codec"] = "ByDtype"
            i += 1
            continue
        if t == "shape = list(array_spec.shape)" and i < len(body) and src(body[i]) == "shape[0] = variants_dim_size":
            locs["shape"] = "ShapeWithRows"
            i += 1
            continue
        if isinstance(st, ast.Assign) and isinstance(st.value, ast.Call) and src(st.value.func) == "root.empty" and not created:
            c = st.value
            if c.args:
                raise Unsupported("positional arguments to root.empty")
            for k in c.keywords:
                if k.arg is None:
                    if src(k.value) != "ZARR_FORMAT_KWARGS":
                        raise Unsupported("**" + src(k.value))
                    continue
                rows.append((k.arg, flow(k.value, locs)))
            avar = src(st.targets[0])
            created = True
            continue
        if created and isinstance(st, ast.Expr) and isinstance(st.value, ast.Call) and src(st.value.func) == f"{avar}.attrs.update" and len(st.value.args) == 1 \
                and isinstance(st.value.args[0], ast.Dict):
            d = st.value.args[0]
            for k, v in zip(d.keys, d.values):
                if not isinstance(k, ast.Constant):
                    raise Unsupported("attribute key")
                rows.append(("attr:" + k.value, flow(v, locs)))
            continue
        if created and isinstance(st, ast.Return) and src(st.value) == avar:
            continue
        raise Unsupported("statement: " + t[:100])
    if not created:
        raise Unsupported("no array creation")
    fields = sorted({r[1].split()[1] for r in rows if " " in r[1]})
    out = (f"(* GENERATED by translator/initarr2coq.py from {REPO}/bio2zarr/vcf2zarr/vcz.py: VcfZarrWriter.init_array *)\n"
           "From Coq Require Import String List.\nImport ListNotations.\nOpen Scope string_scope.\n\n"
           "Inductive spec_field := " + " | ".join(fields) + ".\n"
           "Inductive source := Verbatim (f : spec_field) | ViaGetCodec (f : spec_field) | ShapeWithRows | ByDtype | FromPlan.\n\n"
           "(* zarr keyword / attribute  <-  where its value comes from *)\n"
           "Definition gen_init_array : list (string * source) :=\n  [ " + ";\n    ".join(f'("{k}", {v})' for k, v in rows) + " ].\n")
    return out


def main():
    out_dir = sys.argv[1]
    path = os.path.join(out_dir, "GenInitArray.v")
    try:
        text = translate()
        status = "ok"
    except Unsupported as u:
        text = f"(* TRANSLATION FAILED (fail-closed): {u} *)\n"
        status = "unsupported: " + str(u)
    except (SyntaxError, OSError) as u:
        text = f"(* TRANSLATION FAILED (fail-closed): {type(u).__name__} *)\n"
        status = "unsupported: " + type(u).__name__ + ": " + str(u)
    old = open(path).read() if os.path.exists(path) else None
    if old != text:
        open(path, "w").write(text)
    print(json.dumps({"GenInitArray": status}))


if __name__ == "__main__":
    main()
