#!/venv/bin/python
"""scan2coq.py -- fail-closed translator of the input-set guards of icf.py (C13) to Gallina (coq/Gen/GenScan.v):

  * scan_vcfs: the ORDER of its guards and steps -- the duplicate-path check (collections.Counter over the paths,
    ValueError on a count > 1) before any scan is submitted, the results sorted by path, every other file's scanned
    metadata compared with the first one's (ValueError "Incompatible VCF chunks"), the partitions sorted by
    (header contig index, start);
  * check_field_clobbering: the two literal sets of reserved INFO / FORMAT names;
  * VcfZarrSchema.generate (vcz.py): the names of the fixed arrays it creates (fixed_field_spec(name=..),
    spec_from_field(.., array_name=..), ZarrArraySpec.new(name=..)).

Props/C13.v proves by evaluation that every fixed array variant_X / call_X is protected: X is a reserved INFO /
FORMAT name -- except variant_length, which is protected by array creation (an INFO/length field asks zarr for an
array that exists; reserved_info_name_rejected) -- and that the guards come in the order the theorems assume.
Anything else is Unsupported: the unit is emitted as a comment and Props/C13.v stops compiling.
"""
import ast
import json
import os
import sys

REPO = os.environ.get("VERIF_REPO", "/repo")


class Unsupported(Exception):
    pass


def src(n):
    return ast.unparse(n)


def strip(body):
    out = []
    for s in body:
        if isinstance(s, ast.Expr) and isinstance(s.value, ast.Constant) and isinstance(s.value.value, str):
            continue
        if isinstance(s, ast.Expr) and isinstance(s.value, ast.Call) and src(s.value.func).split(".")[0] in ("logger", "logging", "print"):
            continue
        out.append(s)
    return out


def fn_named(tree, name):
    f = next((n for n in tree.body if isinstance(n, ast.FunctionDef) and n.name == name), None)
    if f is None:
        raise Unsupported("not found: " + name)
    return f


def scan_order(tree):
    fn = fn_named(tree, "scan_vcfs")
    steps = []
    for st in strip(fn.body):
        t = src(st)
        if isinstance(st, ast.For) and src(st.iter) == "collections.Counter(paths).items()":
            raises = [x for x in ast.walk(st) if isinstance(x, ast.Raise)]
            dup = any(isinstance(x, ast.If) and src(x.test) == "count > 1" and any(isinstance(y, ast.Raise) and src(y.exc).startswith("ValueError(") for y in x.body)
                      for x in ast.walk(st))
            if not dup or not raises:
                raise Unsupported("duplicate-path loop without `if count > 1: raise ValueError`")
            steps.append("SDuplicatePaths")
            continue
        if isinstance(st, ast.With) and "ParallelWorkManager" in src(st.items[0].context_expr):
            txt = src(st)
            if "pwm.submit(scan_vcf" not in txt or "pwm.results_as_completed()" not in txt:
                raise Unsupported("scan block")
            steps.append("SScanAll")
            continue
        if t == "results.sort(key=lambda t: t[0].partitions[0].vcf_path)":
            steps.append("SSortResultsByPath")
            continue
        if isinstance(st, ast.For) and src(st.iter) == "results[1:]":
            ok = any(isinstance(x, ast.If) and src(x.test) == "metadata != icf_metadata" and any(isinstance(y, ast.Raise) and src(y.exc).startswith("ValueError(") for y in x.body)
                     for x in ast.walk(st))
            if not ok:
                raise Unsupported("header comparison loop")
            steps.append("SHeadersEqualFirst")
            continue
        if t.startswith("all_partitions.sort(") and "contig_index_map[x.region.contig], x.region.start" in t:
            steps.append("SSortPartitions")
            continue
        if t == "icf_metadata, header = results[0]":
            steps.append("STakeFirstHeader")
            continue
        # bookkeeping that involves neither a guard nor an order
        if isinstance(st, (ast.Assign, ast.AugAssign, ast.Return)) or (isinstance(st, ast.For) and src(st.iter) == "results"):
            continue
        raise Unsupported("scan_vcfs statement: " + t[:80])
    return steps


def reserved(tree):
    fn = fn_named(tree, "check_field_clobbering")
    sets = []
    kinds = []
    for st in strip(fn.body):
        if isinstance(st, ast.Assign) and src(st.targets[0]) == "fixed_variant_fields":
            v = st.value
            if isinstance(v, ast.Call) and src(v.func) == "set" and len(v.args) == 1 and isinstance(v.args[0], ast.List):
                v = v.args[0]
            elif isinstance(v, ast.Set):
                pass
            else:
                raise Unsupported("reserved names: " + src(st)[:80])
            names = [e.value for e in v.elts if isinstance(e, ast.Constant) and isinstance(e.value, str)]
            if len(names) != len(v.elts):
                raise Unsupported("reserved names are not all literals")
            sets.append(names)
        elif isinstance(st, ast.Assign) and src(st.targets[0]) in ("info_field_names", "format_field_names"):
            kinds.append(src(st.targets[0]))
            want = "icf_metadata.info_fields" if "info" in src(st.targets[0]) else "icf_metadata.format_fields"
            if want not in src(st.value) or "field.name" not in src(st.value):
                raise Unsupported("field name set: " + src(st)[:80])
        elif isinstance(st, ast.Assign) and src(st.targets[0]) == "intersection":
            continue
        elif isinstance(st, ast.If) and src(st.test) == "len(intersection) > 0" and any(isinstance(y, ast.Raise) and src(y.exc).startswith("ValueError(") for y in st.body):
            continue
        else:
            raise Unsupported("check_field_clobbering: " + src(st)[:80])
    if kinds != ["info_field_names", "format_field_names"] or len(sets) != 2:
        raise Unsupported("check_field_clobbering: expected the INFO check then the FORMAT check")
    return sets


def fixed_arrays(tree):
    cls = next((n for n in tree.body if isinstance(n, ast.ClassDef) and n.name == "VcfZarrSchema"), None)
    gen = next((n for n in cls.body if isinstance(n, ast.FunctionDef) and n.name == "generate"), None) if cls else None
    if gen is None:
        raise Unsupported("generate not found")
    names = []
    for c in ast.walk(gen):
        if isinstance(c, ast.Call):
            f = src(c.func)
            kw = {k.arg: k.value for k in c.keywords}
            key = "name" if f in ("fixed_field_spec", "ZarrArraySpec.new") else "array_name" if f == "spec_from_field" else None
            if key and key in kw and isinstance(kw[key], ast.Constant) and isinstance(kw[key].value, str):
                names.append(kw[key].value)
    if not names:
        raise Unsupported("no fixed array names found")
    return sorted(set(names))


def q(s):
    return '"' + s + '"'


def main():
    out_dir = sys.argv[1]
    path = os.path.join(out_dir, "GenScan.v")
    try:
        icf = ast.parse(open(os.path.join(REPO, "bio2zarr/vcf2zarr/icf.py")).read())
        vcz = ast.parse(open(os.path.join(REPO, "bio2zarr/vcf2zarr/vcz.py")).read())
        steps = scan_order(icf)
        info, fmt = reserved(icf)
        fixed = fixed_arrays(vcz)
        text = (f"(* GENERATED by translator/scan2coq.py from {REPO}/bio2zarr/vcf2zarr/icf.py (scan_vcfs, check_field_clobbering) and vcz.py (generate) *)\n"
                "From Coq Require Import String List.\nImport ListNotations.\nOpen Scope string_scope.\n\n"
                "Inductive scan_step := SDuplicatePaths | SScanAll | SSortResultsByPath | STakeFirstHeader | SHeadersEqualFirst | SSortPartitions.\n\n"
                f"Definition gen_scan_steps : list scan_step := [{'; '.join(steps)}].\n\n"
                f"Definition gen_reserved_info : list string := [{'; '.join(q(x) for x in info)}].\n"
                f"Definition gen_reserved_format : list string := [{'; '.join(q(x) for x in fmt)}].\n\n"
                f"Definition gen_fixed_arrays : list string := [{'; '.join(q(x) for x in fixed)}].\n")
        status = "ok"
    except Unsupported as u:
        text = f"(* TRANSLATION FAILED (fail-closed): {u} *)\n"
        status = "unsupported: " + str(u)
    except (SyntaxError, OSError) as u:
        text = f"(* TRANSLATION FAILED (fail-closed): {type(u).__name__} *)\n"
        status = "unsupported: " + type(u).__name__ + ": " + str(u)
    old = open(path).read() if os.path.exists(path) else None
    if old != text:
        open(path, "w").write(text)
    print(json.dumps({"GenScan": status}))


if __name__ == "__main__":
    main()
