#!/venv/bin/python
"""tools/run_baseline.py <worktree> -- run the pinned test suite (/root/.vp/BASELINE.json) in a
worktree of /repo and report how many of the stable-pass tests still pass.  Exit 0 iff all do."""
import json, os, subprocess, sys, tempfile
import xml.etree.ElementTree as ET
wt = sys.argv[1]
base = json.load(open("/root/.vp/BASELINE.json"))
want = set(base["stable_pass"])
fd, xml = tempfile.mkstemp(suffix=".xml", dir="/var/tmp"); os.close(fd)
env = dict(os.environ, PYTHONPATH=wt, PYTHONDONTWRITEBYTECODE="1")
env.pop("VERIF_AUDIT_LOG", None)
subprocess.run(["/venv/bin/python", "-m", "pytest", "-q", "-p", "no:cacheprovider", "--timeout=900",
                "--continue-on-collection-errors", "-n", os.environ.get("BASELINE_PROCS", "6"), f"--junitxml={xml}"],
               cwd=wt, env=env, capture_output=True, text=True)
passed = set()
try:
    for tc in ET.parse(xml).getroot().iter("testcase"):
        if not any(ch.tag in ("failure", "error", "skipped") for ch in tc):
            passed.add(f"{tc.get('classname')}::{tc.get('name')}")
finally:
    os.unlink(xml)
broken = sorted(want - passed)
print(f"baseline tests: {len(want)}; still passing: {len(want & passed)}; broken: {len(broken)}")
for b in broken[:20]:
    print("  BROKEN", b)
sys.exit(0 if not broken else 1)
