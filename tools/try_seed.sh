#!/bin/bash
# tools/try_seed.sh <Cxx> <patch.diff> [tier]  -- apply a seeded change to /repo, run the check, undo.
# The evidence file of the unchanged tree is preserved.
set -u
P=$1; PATCH=$2; TIER=${3:-quick}
cd "$(dirname "$0")/.."; export VERIF_REPO="${VERIF_REPO:-/repo}"
git -C "$VERIF_REPO" diff --quiet || { echo "/repo not clean"; exit 2; }
git -C "$VERIF_REPO" apply "$PATCH" || { echo "patch does not apply"; exit 2; }
cp evidence/$P.json /var/tmp/evidence_$P.bak 2>/dev/null
./check $P --tier $TIER 2>&1 | grep -E "VIOLATION|KNOWN|OK:|FAILED:|broken:|^  [a-zA-Z]" | grep -v "^  File" | head -12
git -C "$VERIF_REPO" checkout -- .
cp /var/tmp/evidence_$P.bak evidence/$P.json 2>/dev/null
git -C "$VERIF_REPO" status --short | head -3
