#!/bin/bash
# tools/try_seed.sh <Cxx> <patch.diff> [tier]  -- apply a seeded change to /repo, run the check, undo.
set -u
P=$1; PATCH=$2; TIER=${3:-quick}
cd /verif
git -C /repo diff --quiet || { echo "/repo not clean"; exit 2; }
git -C /repo apply "$PATCH" || { echo "patch does not apply"; exit 2; }
./check $P --tier $TIER 2>&1 | grep -E "VIOLATION|KNOWN|OK:|FAILED:|broken:|^  " | head -12
git -C /repo checkout -- .
git -C /repo status --short | head -3
