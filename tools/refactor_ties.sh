#!/bin/bash
# tools/refactor_ties.sh <patch>...  -- does a (harmless) change keep the translator ties?  apply, translate, make Props, undo.
cd "$(dirname "$0")/.."; export VERIF_REPO="${VERIF_REPO:-/repo}"
for P in "$@"; do
  git -C "$VERIF_REPO" diff --quiet || { echo "/repo not clean"; exit 2; }
  git -C "$VERIF_REPO" apply "$P" || { echo "$P: does not apply"; continue; }
  ST=""
  for t in $(ls translator/*2coq.py | xargs -n1 basename | sed 's/\.py$//'); do ST="$ST $(/venv/bin/python translator/$t.py coq/Gen | tail -1)"; done
  BAD=$(echo "$ST" | grep -o '"[A-Za-z]*": "unsupported[^"]*"' | tr '\n' ' ')
  MK=$(cd coq && timeout 900 make -j16 -k $(ls Props/*.v | sed 's/\.v$/.vo/') 2>&1 | grep -E "^make.*Error|Error:" | head -5 | tr '\n' ' ')
  echo "$(basename $(dirname $P))/$(basename $(dirname $(dirname $P))) :: unsupported: ${BAD:-none} :: make: ${MK:-ok}"
  git -C "$VERIF_REPO" checkout -- .
done
for t in $(ls translator/*2coq.py | xargs -n1 basename | sed 's/\.py$//'); do /venv/bin/python translator/$t.py coq/Gen >/dev/null; done
(cd coq && make -j16 $(ls Props/*.v | sed 's/\.v$/.vo/') >/dev/null 2>&1)
