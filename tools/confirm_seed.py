#!/venv/bin/python
"""tools/confirm_seed.py <Cxx> <mN>  -- independently confirm a seeded change produced by a
sub-agent (in /tmp/seed_<Cxx>/<mN>) in a fresh scratch worktree: demo passes on pristine,
fails with the patch, pinned baseline still passes with the patch.  On success copies it to
/verif/seeded/<Cxx>_<mN>/ (patch.diff, demo.py, notes.md, meta.json)."""
import json, os, shutil, subprocess, sys, tempfile, time
pid, mn = sys.argv[1], sys.argv[2]
src = f"/tmp/seed_{pid}/{mn}"
wt = tempfile.mkdtemp(prefix=f"confirm_{pid}_{mn}_", dir="/tmp")
os.rmdir(wt)
def sh(cmd, **kw):
    return subprocess.run(cmd, shell=True, capture_output=True, text=True, **kw)
ran = []
try:
    r = sh(f"git -C /repo worktree add -q --detach {wt} HEAD"); assert r.returncode == 0, r.stderr
    env = dict(os.environ, PYTHONPATH=wt)
    d0 = sh(f"cd /tmp && timeout 1200 /venv/bin/python {src}/demo.py {wt}", env=env); ran.append(("demo pristine", d0.returncode))
    a = sh(f"git -C {wt} apply {src}/patch.diff"); assert a.returncode == 0, a.stderr
    d1 = sh(f"cd /tmp && timeout 1200 /venv/bin/python {src}/demo.py {wt}", env=env); ran.append(("demo patched", d1.returncode))
    b = sh(f"/verif/tools/run_baseline.py {wt}"); ran.append(("baseline patched", b.stdout.strip().splitlines()[0] if b.stdout else b.stderr[-200:]))
    ok = d0.returncode == 0 and d1.returncode != 0 and b.returncode == 0
    print(pid, mn, "CONFIRMED" if ok else "REJECTED", ran)
    if ok:
        dst = f"/verif/seeded/{pid}_{mn}"
        os.makedirs(dst, exist_ok=True)
        for f in ("patch.diff", "demo.py", "notes.md"):
            shutil.copy(os.path.join(src, f), dst)
        meta = dict(property=pid, id=f"{pid}_{mn}", produced_by="independent sub-agent given only the property text and a scratch worktree",
                    needs_to_manifest=open(os.path.join(src, "notes.md")).read()[:1500],
                    confirmed=dict(when=time.strftime("%Y-%m-%d %H:%M:%S"), ran=ran, commit=sh("git -C /repo rev-parse HEAD").stdout.strip(),
                                   demo_patched_tail=(d1.stdout + d1.stderr)[-600:]),
                    detected_by=None)
        json.dump(meta, open(os.path.join(dst, "meta.json"), "w"), indent=1)
finally:
    sh(f"git -C /repo worktree remove --force {wt}")
    shutil.rmtree(wt, ignore_errors=True)
