#!/usr/bin/env python3
"""tools/seed_table.py -- regenerate the table of DESIGN.md section 8 (between the markers) from seeded/*/meta.json."""
import glob, json, os, re
ROOT = os.path.dirname(os.path.dirname(os.path.abspath(__file__)))
rows = []
for d in sorted(glob.glob(os.path.join(ROOT, "seeded", "*"))):
    m = json.load(open(os.path.join(d, "meta.json")))
    title = re.sub(r"^#\s*C\d+\s*/\s*m\d\s*\S+\s*", "", open(os.path.join(d, "notes.md")).read().splitlines()[0])
    det = m.get("detected_by") or {}
    if m.get("obsolete"):
        det = dict(verdict="obsolete (made harmless by a later fix: " + m["obsolete"][:60] + "...)", first_violation="")
    rows.append("| %s | %s | %s | %s |" % (m["id"], title.replace("|", "/")[:150], det.get("verdict", "not run"), (det.get("first_violation") or "").replace("|", "/")[:140]))
table = "| seed | change (first line of the author's notes) | verdict of `./check Cxx --tier quick` | first violation line |\n|---|---|---|---|\n" + "\n".join(rows)
p = os.path.join(ROOT, "DESIGN.md")
s = open(p).read()
a, b = "<!-- SEED-TABLE-BEGIN -->", "<!-- SEED-TABLE-END -->"
if a in s:
    s = s[: s.index(a) + len(a)] + "\n" + table + "\n" + s[s.index(b):]
    open(p, "w").write(s)
caught = sum(1 for r in rows if "failing-input" in r)
print(len(rows), "seeds;", caught, "caught with a failing input;", sum(1 for r in rows if "tie-broken-only" in r), "tie-broken only;", sum(1 for r in rows if "| missed |" in r), "missed")
