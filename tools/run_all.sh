#!/bin/bash
# tools/run_all.sh [tier]  -- every claimed check on the current tree, sequentially; summary at the end
cd "$(dirname "$0")/.."; export VERIF_REPO="${VERIF_REPO:-/repo}"
TIER=${1:-quick}
for P in $(python3 -c "import json; print(' '.join(c['property_id'] for c in json.load(open('MANIFEST.json'))['checks']))"); do
  S=$(date +%s)
  ./check $P --tier $TIER > /var/tmp/runall_$P.log 2>&1; RC=$?
  echo "$P rc=$RC $(( $(date +%s) - S ))s $(grep -E 'VIOLATION|KNOWN-FINDING' /var/tmp/runall_$P.log | cut -c1-120 | tr '\n' ' ')"
done
python3-vt - <<'PY'
import json, jsonschema, glob
sch=json.load(open('/root/.vp/EVIDENCE.schema.json'))
for f in sorted(glob.glob('evidence/*.json')):
    e=json.load(open(f)); jsonschema.validate(e, sch)
    c=e['coverage']; assert c['obligations']==c['discharged']>=1, f
print('evidence valid')
PY
