#!/bin/bash
# tools/try_seeds.sh "Cxx mN" ...  -- run the property's quick check against each candidate seed in /tmp/seed_Cxx/mN
cd "$(dirname "$0")/.."; export VERIF_REPO="${VERIF_REPO:-/repo}"
for pair in "$@"; do
  set -- $pair; P=$1; M=$2
  S=$(date +%s)
  tools/try_seed.sh $P /tmp/seed_$P/$M/patch.diff quick > /var/tmp/try_${P}_${M}.log 2>&1
  V=$(grep -c VIOLATION /var/tmp/try_${P}_${M}.log)
  echo "$P $M violations=$V $(( $(date +%s) - S ))s :: $(grep -E 'VIOLATION|^  ' /var/tmp/try_${P}_${M}.log | head -2 | cut -c1-200 | tr '\n' ' ')"
done
