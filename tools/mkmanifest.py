#!/usr/bin/env python3
"""Regenerates MANIFEST.json from the table below (kept valid at all times)."""
import json, os, sys
sys.path.insert(0, "/verif/harness")
import props

TEXT = {
 "C11": ("Coq theorems generate_partitions_cover / chunk_aligned_slices_cover for ALL num_records, chunk_size, num_partitions >= 1 and any cap >= 1, stated about the Gallina definitions that translator/py2coq.py regenerates from vcz.py / core.py on every run (bridge lemmas re-proved each run); plus a differential run of the real functions against the extracted model and of the extracted checker check_C11 on the implementation's own output (bounded-exhaustive box + random large tuples).",
         "Trusted: Coq kernel, the translator and Base/Prims.v (meaning of np.array_split / int(np.ceil(a/b)); exact for num_records < 2^53), extraction (ExtrOcamlBasic), the harness."),
 "C09": ("Coq theorems csi_parse_serialise / tbi_parse_serialise (the byte-level reader inverts an independent specification serialiser for every well-formed index: any contigs/bins/chunks/min_shift/depth, with or without pseudo-bins and trailing count), counts_rule, bad-magic rejection, and level_unique / first_locus_spec / file_offset_spec for every depth >= 0 about the TRANSLATED bin helpers; the reader model is tied to read_csi/read_tabix by a differential run over htslib-written, re-serialised and malformed indexes, with counts compared to the records actually in the file.",
         "Trusted: Coq kernel, translator (bin helpers), extraction, harness; htslib's index writer and Python's gzip are exercised only differentially; the byte-level reader model is hand-written and tied by correspondence."),
 "C10": ("Coq theorems min_int_dtype_fits_minimal / min_int_dtype_errors about the TRANSLATED core.min_int_dtype (narrowest of i1..i8 containing [lo,hi]; the two error kinds), sentinels_representable, generated_schema_fits (every stored integer and both sentinels lie inside the generated dtype, so the encode-time cast is the identity), contig_dtype_fits, generated_shape_fits (inner dimension = max_number, ranks agree), widening_preserves_values; the schema model is tied to VcfField.smallest_dtype / ZarrArraySpec.from_field / VcfZarrSchema.generate by a differential run on generated summaries, and end to end the generated schema is checked against every value in the intermediate store, through a JSON round trip, and through edited schemas (dropped subsets, widened dtypes, compressor / chunk edits).",
         "Trusted: Coq kernel, translator (min_int_dtype), extraction, harness. The JSON round trip and 'user schema honoured' clauses are decided by the differential run on the implementation, not by a theorem (partial)."),
 "C13": ("Coq theorem overlap_check_complete: after sorting by (contig index, start) the TRANSLATED check_overlapping_partitions accepts exactly the partition lists in which no two partitions intersect on a contig (iff, for any number of partitions and any file order), accepted_sorted, unset_end_never_accepted, duplicate_path_rejected, incompatible_header_rejected, reserved_info/format_name_rejected (incl. the 'length' clash via array creation), undeclared_filter_rejected; tied by in-process differential on generated interval sets and end-to-end conversions of cut file sets, header perturbations, reserved names and undeclared filters ('no finished store after an error' checked).",
         "Trusted: Coq kernel, translator (check_overlapping_partitions), extraction, harness; header equality is dataclass equality of the scanned metadata (modelled as an opaque id); zarr's refusal to create an existing array."),
 "C08": ("Coq theorems, generic in the value type and the size function: values_roundtrip (whole-column read = appended values for every partitioning and flush threshold), chunks_nonempty, range_read (the two-level searchsorted range read of iter_values equals the slice for EVERY store shape incl. empty partitions/chunks and every a<b), num_records_eq, summary_bounds (min/max bound every non-sentinel integer and are attained; max_number exact), summary_partition_independent; the hand-written model is tied to IcfFieldWriter / IntermediateColumnarFormatField by an in-process differential (observed sys.getsizeof fed to the model, all O(n^2) ranges in shuffled order) and end to end against the source records and a 1-partition reference.",
         "Trusted: Coq kernel, extraction, harness; pickle/Blosc round-tripping a chunk; cyvcf2 as the 'source read'. Phasing of calls with < 2 alleles is a don't-care (cyvcf2 reports an indeterminate bit, finding F8)."),
 "C12": ("Coq theorems region_index_spec (for all record lists with pos+len-1 inside int32 and every chunk size, the index built with the code's int32 arithmetic -- wrap written into the model -- equals the specification index computed in Z), rows_cover_once (the rows' runs concatenate to the record list: every record in exactly one row, in order), runs_are_maximal_uniform, row_fields (first/last position, count, max end attained and bounding), chunk_sizes, plus the pre-fix int8 wrap witness; tied by in-process differential of the real create_index on synthetic zarr stores in i1/i2/i4 and end to end on generated VCFs with END-style spans; the extracted check_C12 is evaluated on the real index.",
         "Trusted: Coq kernel, extraction, harness; numpy's integer promotion/wrap and zarr block access are modelled (wrap32), not verified."),
 "C16": ("Coq theorems bed_decode_encode (an independent bit-level decoder inverts the independent writer for any sample count incl. those not divisible by four with ARBITRARY padding bits, any number of variants), plink_calls_spec (the documented 00/01/10/11 mapping), sample_bit_position (sample s is bits 2(s mod 4) of byte s/4), plink_rows_once (the TRANSLATED chunk_aligned_slices partition the variant rows exactly, chunk-aligned -- from C11); tied by converting generated filesets with plink.convert for chunk sizes x workers 0..8 and comparing all six arrays with the extracted decoder and the bim/fam text.",
         "Trusted: Coq kernel, translator (chunk_aligned_slices), extraction, harness; bed_reader's decoding/text parsing and the BufferedArray flushes are exercised differentially (the latter is modelled under C01/C03)."),
 "C17": ("Coq theorems laa_sorted_distinct_alts (each call's local alleles are exactly the ascending distinct alternate alleles of its genotype), laa_rows_padded, genotype_index_bijection (the repeat/tril enumeration is the VCF genotype order for every number of alleles), lpl_projection (diploid: LPL[k] = PL[G(la[c_k], la[r_k])] below the call's local genotype count, fill beyond, for any number of local alleles and any padding), lpl_projection_haploid_partial + lpl_haploid_fill_refuted (the open finding F5), ploidy_rejected; the model (Python negative indexing, the all-missing broadcast, masking on b only) is tied to compute_laa_field / compute_lpl_field by an in-process differential over generated genotypes and PL missingness patterns, and end to end by converting generated VCFs with and without local alleles (all other arrays compared bitwise).",
         "Trusted: Coq kernel, extraction, harness; cyvcf2's PL array conventions. The zero-ALT broadcast case and records carrying their own LAA/LPL are covered by the correspondence run, not by lpl_projection (which assumes >= 1 ALT allele and a Number=G wide PL). Ploidy 1 fill cells: known finding F5."),
}

def main():
    ids = [json.loads(l)["id"] for l in open("/verif/properties.jsonl")]
    claimed = [i for i in ids if i in props.PROPS and i in TEXT]
    m = dict(
        version=1,
        setup_cmd="./setup.sh",
        hooks=dict(guard="BIO2ZARR_VERIF",
                   enable="no hooks are needed in /repo: file-system tracing and crash injection are done by a sitecustomize audit hook on the harness's own PYTHONPATH (harness/fsaudit); the guard name is reserved and unused",
                   baseline_off_cmd="cd /repo && /venv/bin/python -m pytest -ra -q -p no:cacheprovider --timeout=900 --continue-on-collection-errors",
                   source_commits=[], add_only=True),
        engines=[dict(name="rocq-proof+tie", path="check", serves_properties=claimed,
                      kind_free_text="Coq 8.16.1 theorems over a model that is regenerated from /repo by translator/py2coq.py (bridge lemmas) and/or tied to /repo by a correspondence run of the extracted model against the implementation; failing-input search by the extracted boolean checker on the implementation's own outputs")],
        checks=[], notes="see DESIGN.md; ./check <id> --tier quick|thorough; replays under /verif/replays", not_applicable=[])
    for i in claimed:
        text, note = TEXT[i]
        m["checks"].append(dict(property_id=i, quick_cmd=f"./check {i} --tier quick", thorough_cmd=f"./check {i} --tier thorough",
            evidence_file=f"evidence/{i}.json", replay_cmd_template=f"./check {i} --replay {{path}}", engine="rocq-proof+tie",
            level_claimed=dict(category="proof", text=text + " Status: " + props.PROPS[i].get("status", ""), design_ref=f"DESIGN.md §4 {i}"),
            level_note=note, technique=props.PROPS[i].get("technique", "Rocq (Coq 8.16) proof + model/implementation correspondence")))
    for i in ids:
        if i not in claimed:
            m["not_applicable"].append(dict(property_id=i, reason="not yet claimed: its model/theorems/tie are still being built in this phase (DESIGN.md §5); this is not a statement that the technique cannot apply"))
    json.dump(m, open("/verif/MANIFEST.json", "w"), indent=1)
    print("claimed:", claimed)
main()
