#!/usr/bin/env python3
"""tools/seed_matrix.py [ids...] -- run every seeded change (seeded/<id>/patch.diff) against the quick
check of its property: apply to /repo, ./check, undo.  Records the outcome in seeded/<id>/meta.json
('detected_by') and prints a table.  /repo must be clean; evidence files are preserved."""
import json, os, shutil, subprocess, sys, time
ROOT = os.environ.get("VERIF_ROOT") or os.path.dirname(os.path.dirname(os.path.abspath(__file__)))
REPO = os.environ.get("VERIF_REPO", "/repo")
os.environ["VERIF_REPO"] = REPO
os.chdir(ROOT)
ids = sys.argv[1:] or sorted(os.listdir("seeded"))
assert subprocess.run(["git", "-C", REPO, "diff", "--quiet"]).returncode == 0, "/repo not clean"
rows = []
for sid in ids:
    d = os.path.join("seeded", sid)
    meta = json.load(open(os.path.join(d, "meta.json")))
    if meta.get("obsolete"):
        print((sid, "obsolete"), flush=True)
        continue
    pid = meta["property"]
    ev = f"evidence/{pid}.json"
    bak = f"/var/tmp/ev_{pid}.bak"
    if os.path.exists(ev):
        shutil.copy(ev, bak)
    a = subprocess.run(["git", "-C", REPO, "apply", os.path.abspath(os.path.join(d, "patch.diff"))], capture_output=True, text=True)
    if a.returncode != 0:
        rows.append((sid, pid, "PATCH-DOES-NOT-APPLY", "", 0))
        continue
    t = time.time()
    try:
        p = subprocess.run(["./check", pid, "--tier", "quick"], capture_output=True, text=True, timeout=3000)
        out = p.stdout
    finally:
        subprocess.run(["git", "-C", REPO, "checkout", "--", "."])
        if os.path.exists(bak):
            shutil.copy(bak, ev)
    dt = time.time() - t
    lines = out.splitlines()
    vio = next((l for l in lines if l.startswith("VIOLATION")), None)
    what = ""
    if vio:
        i = lines.index(vio)
        what = lines[i + 1].strip() if i + 1 < len(lines) else ""
    verdict = "missed" if vio is None else ("tie-broken-only" if "no-failing-input-found" in vio else "failing-input")
    meta["detected_by"] = dict(check=f"./check {pid} --tier quick", verdict=verdict, first_violation=what[:300], seconds=round(dt), exit_code=p.returncode,
                               when=time.strftime("%Y-%m-%d %H:%M"), repo_commit=subprocess.check_output(["git", "-C", REPO, "rev-parse", "--short", "HEAD"], text=True).strip())
    json.dump(meta, open(os.path.join(d, "meta.json"), "w"), indent=1)
    rows.append((sid, pid, verdict, what[:110], round(dt)))
    print(rows[-1], flush=True)
print()
for r in rows:
    print("| %s | %s | %s | %s |" % (r[0], r[2], r[3].replace("|", "/"), r[4]))
