#!/bin/bash
# Offline build of the whole framework from files on disk: translator -> Gen/*.v,
# full .vo build of the Coq development, extraction, OCaml model binary.
set -e
cd "$(dirname "$0")"
export VERIF_ROOT="$(pwd)" VERIF_REPO="${VERIF_REPO:-/repo}"
export PYTHONPATH="$VERIF_ROOT/harness:$VERIF_REPO" PYTHONHASHSEED=0 PYTHONDONTWRITEBYTECODE=1
mkdir -p coq/Gen evidence replays extract/gen/Bins extract/gen/Partitions extract/gen/Dtype extract/gen/Overlap
/venv/bin/python translator/py2coq.py coq/Gen
for t in translator/cli2coq.py translator/workers2coq.py translator/proto2coq.py translator/buf2coq.py translator/icfw2coq.py translator/plink2coq.py translator/ridx2coq.py translator/regions2coq.py translator/san2coq.py translator/enc2coq.py translator/offs2coq.py translator/schema2coq.py translator/iter2coq.py translator/scan2coq.py translator/summ2coq.py translator/refine2coq.py translator/initarr2coq.py translator/explode2coq.py translator/lpl2coq.py translator/idx2coq.py translator/ivcf2coq.py translator/transf2coq.py; do [ -f $t ] && /venv/bin/python $t coq/Gen || true; done
(cd coq && coq_makefile -f _CoqProject -o Makefile >/dev/null && timeout 3000 make -j16)
(cd extract && ocamlfind ocamlopt -O3 -w -a model.mli model.ml driver.ml -o model)
for u in Bins Partitions Dtype Overlap; do (cd extract/gen/$u && sed 's/(dispatch /(gen_dispatch /' ../../driver.ml > driver.ml && ocamlfind ocamlopt -O3 -w -a model.mli model.ml driver.ml -o genmodel); done
echo "setup done"
